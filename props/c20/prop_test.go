// Package c20 checks property C20: concurrent use of MFS never deadlocks and loses no
// acknowledged write.
//
// A case is a set of 2-4 worker scripts over a small shared tree. The scripts run with real
// goroutines in a CHILD PROCESS (this test binary re-executed with -test.run of
// TestChildC20) under a watchdog. If the child does not finish, it is sent SIGQUIT and its
// goroutine dump is inspected: only when every unfinished worker is parked in
// sync.(*RWMutex).RLock/Lock or sync.(*Mutex).Lock below a github.com/ipfs/boxo/mfs frame is
// the case reported as a deadlock (violation). Any other timeout is inconclusive and never
// reported as a violation.
package c20

import (
	"bytes"
	"context"
	"encoding/json"
	"errors"
	"fmt"
	"io"
	"os"
	"os/exec"
	"regexp"
	"runtime"
	"runtime/debug"
	"sort"
	"strconv"
	"strings"
	"sync"
	"sync/atomic"
	"syscall"
	"testing"
	"time"

	bserv "github.com/ipfs/boxo/blockservice"
	bstore "github.com/ipfs/boxo/blockstore"
	offline "github.com/ipfs/boxo/exchange/offline"
	dag "github.com/ipfs/boxo/ipld/merkledag"
	ft "github.com/ipfs/boxo/ipld/unixfs"
	uio "github.com/ipfs/boxo/ipld/unixfs/io"
	"github.com/ipfs/boxo/mfs"
	cid "github.com/ipfs/go-cid"
	ds "github.com/ipfs/go-datastore"
	dssync "github.com/ipfs/go-datastore/sync"
	ipld "github.com/ipfs/go-ipld-format"
	"pgregory.net/rapid"
	"verif/kit"
)

func TestMain(m *testing.M) { kit.Main(m) }

// ---------------------------------------------------------------------------
// case

// Step is one self-contained operation of a worker (no descriptor survives a step).
type Step struct {
	// read | write | writeflush | writemulti | mode | modtime | getnode | type | setmode |
	// setmtime | size | list | flush | flushpath | flushdir | mv | mvdir
	Kind string `json:"kind"`
	File int    `json:"file,omitempty"` // index into the token files
	Sync bool   `json:"sync,omitempty"` // write: open the descriptor with Flags.Sync
	// mv direction, list target, mode bits; writemulti: number of WriteAt+Flush rounds on the
	// one descriptor
	Arg int `json:"arg,omitempty"`
	// Rep > 1, read-side accessors only (size, mode, modtime, getnode, type, list): the object
	// is looked up once and the accessor is called Rep times back to back, so that the worker
	// spends most of its time inside the accessor's lock section (a hot reader loop).
	Rep int `json:"rep,omitempty"`
}

type Case struct {
	Procs   int      `json:"procs"` // GOMAXPROCS of the child: 2 or 16
	Loops   int      `json:"loops"` // every worker repeats its script this many times
	Workers [][]Step `json:"workers"`
	// NoExclude disables the exclusion of open known findings (finding repro cases).
	NoExclude bool `json:"no_exclude,omitempty"`
	// Follow: a worker whose script consists of read-side accessors only (isFollower) does
	// not stop after Loops passes but keeps repeating its script until every other worker
	// has finished (bounded by followBudget accessor calls), so that the hot reader loops
	// overlap the whole life of the writers whatever the relative cost of the operations.
	Follow bool `json:"follow,omitempty"`
	// Sched, when set, makes the child wrap the DAGService of the MFS root so that
	// DAGService.Add/Get calls become harness-owned scheduling points (see schedDAG).
	Sched *Sched `json:"sched,omitempty"`
}

// Sched describes the scheduling points injected at the DAGService boundary. MFS calls
// DAGService.Add (and Get) both with and without its own locks held, in particular between
// the lock-free stages of every update that bubbles up the tree (file node stored -> entry of
// the parent updated -> entry of the grandparent updated -> Root notified), so a pause there
// widens every such window without any hook in the library.
type Sched struct {
	// Mode "handoff": the calling goroutine waits at the point until OTHER workers have
	// completed Steps whole steps (or nobody else is running, or the bound WaitUs expired):
	// a complete foreign operation is placed inside the window whenever the locks held at
	// the point allow it. Mode "sleep": plain time.Sleep(WaitUs) (0: only yields).
	Mode string `json:"mode"`
	// Every k-th matching call is a scheduling point (1 = every call).
	Every int `json:"every"`
	// On: "add" | "get" | "both" - which DAGService calls count.
	On string `json:"on"`
	// Nodes: "any" | "dir" | "file" - only Adds of directory / non-directory nodes count.
	Nodes  string `json:"nodes"`
	Steps  int    `json:"steps,omitempty"`
	WaitUs int    `json:"wait_us"`
	Yields int    `json:"yields,omitempty"`
}

// the shared tree: token files (fixed per-worker slots, checked), a movable file and a movable directory
var filePaths = []string{"/f0", "/d/f1", "/d/f2"}

const (
	movFileA = "/m"
	movFileB = "/d/m"
	movDirA  = "/e"
	movDirB  = "/d/e"
)

func takesNodeWriteLock(k string) bool {
	switch k {
	case "read", "write", "writeflush", "writemulti", "setmode", "setmtime", "flushpath":
		// every descriptor Close/Flush (also of a read descriptor) and every metadata
		// update takes File.nodeLock for writing
		return true
	}
	return false
}

func isMetaRead(k string) bool { return k == "mode" || k == "modtime" }

// isAccessor: read-side accessors of a File (list: of the entries of a directory, which
// calls GetNode, Type and Size of every file below it while holding the directory lock).
// They all read File.node under nodeLock.RLock (Type reads nothing).
func isAccessor(k string) bool {
	switch k {
	case "size", "mode", "modtime", "getnode", "type", "list":
		return true
	}
	return false
}

// isFollower: the script consists of read-side accessors only.
func isFollower(sc []Step) bool {
	for _, s := range sc {
		if !isAccessor(s.Kind) {
			return false
		}
	}
	return len(sc) > 0
}

// followBudget bounds the accessor calls of a follower (a listing counts as 16): it ends
// a follower whose writers never finish, so that after a deadlock every worker that is not
// parked in a lock has finished when the watchdog looks.
const followBudget = 2_000_000

var repChoices = []int{1, 8, 64, 64, 512, 512}

// ---------------------------------------------------------------------------
// generator

func genStep(t *rapid.T) Step {
	k := rapid.SampledFrom([]string{
		"read", "read", "write", "write", "write", "writeflush", "writemulti", "mode", "mode", "modtime",
		"setmode", "setmtime", "size", "size", "getnode", "type", "list", "flush", "flushpath", "flushpath", "flushdir", "mv", "mv", "mvdir",
	}).Draw(t, "kind")
	s := Step{Kind: k}
	if isFileOp(k) {
		s.File = rapid.IntRange(0, len(filePaths)-1).Draw(t, "file")
	}
	if isAccessor(k) {
		s.Rep = rapid.SampledFrom([]int{1, 1, 8, 64}).Draw(t, "rep")
		if k == "list" && s.Rep > 4 {
			s.Rep = 4 // every listing of "/" passes two DAGService.Add scheduling points
		}
	}
	switch k {
	case "write", "writeflush":
		s.Sync = rapid.Bool().Draw(t, "sync")
	case "writemulti":
		s.Sync = rapid.Bool().Draw(t, "sync")
		s.Arg = rapid.IntRange(2, 3).Draw(t, "rounds")
	case "setmode":
		s.Arg = rapid.SampledFrom([]int{0o644, 0o600, 0o755}).Draw(t, "mode")
	case "list", "flushdir", "mv", "mvdir":
		s.Arg = rapid.IntRange(0, 1).Draw(t, "arg")
	}
	return s
}

func genSched(t *rapid.T) *Sched {
	if rapid.IntRange(0, 3).Draw(t, "sched") == 0 {
		return nil // plain run: the Go scheduler alone
	}
	sc := &Sched{
		Mode:  rapid.SampledFrom([]string{"handoff", "handoff", "sleep"}).Draw(t, "schedmode"),
		Every: rapid.SampledFrom([]int{1, 1, 2, 3}).Draw(t, "every"),
		On:    rapid.SampledFrom([]string{"add", "add", "both"}).Draw(t, "on"),
		Nodes: rapid.SampledFrom([]string{"any", "any", "dir", "file"}).Draw(t, "nodes"),
	}
	if sc.Mode == "handoff" {
		sc.Steps = rapid.IntRange(1, 2).Draw(t, "hsteps")
		sc.WaitUs = rapid.SampledFrom([]int{100, 300, 1000}).Draw(t, "waitus")
	} else {
		sc.WaitUs = rapid.SampledFrom([]int{0, 20, 100, 300}).Draw(t, "waitus")
		sc.Yields = rapid.IntRange(0, 3).Draw(t, "yields")
	}
	return sc
}

func gen(t *rapid.T) Case {
	c := Case{}
	c.Procs = rapid.SampledFrom([]int{2, 16}).Draw(t, "procs")
	c.Loops = rapid.IntRange(kit.Scale(60, 100), kit.Scale(250, 500)).Draw(t, "loops")
	c.Sched = genSched(t)
	switch rapid.IntRange(0, 3).Draw(t, "profile") {
	case 0:
		c.Workers = genOwnerVsFlushers(t)
		return c
	case 1:
		c.Workers = genReadersVsWriters(t)
		c.Follow = rapid.IntRange(0, 3).Draw(t, "follow") > 0
		// the steps of this shape are cheap (one file, no directory flush): more passes, i.e.
		// more write-lock acquisitions that sample the readers' lock sections
		c.Loops = rapid.SampledFrom([]int{150, 250, 400, kit.Scale(400, 800)}).Draw(t, "rwloops")
		if c.Sched != nil {
			// A listing stores the node of every sub-directory (DAGService.Add of a directory
			// node): as scheduling points these would make every looped listing wait. Only the
			// Adds of file nodes (descriptor Flush/Close, SetMode/SetModTime) are points here.
			c.Sched.On, c.Sched.Nodes = "add", "file"
		}
		return c
	}
	nw := rapid.IntRange(2, 4).Draw(t, "workers")
	// make collisions on one file frequent: a "hot" file that most steps are redirected to
	hot := rapid.IntRange(0, len(filePaths)-1).Draw(t, "hot")
	for w := 0; w < nw; w++ {
		n := rapid.IntRange(1, 6).Draw(t, "steps")
		var sc []Step
		for i := 0; i < n; i++ {
			s := genStep(t)
			if rapid.IntRange(0, 2).Draw(t, "tohot") > 0 {
				if isFileOp(s.Kind) {
					s.File = hot
				}
				if s.Kind == "list" {
					s.Arg = dirOf(hot)
				}
			}
			sc = append(sc, s)
		}
		c.Workers = append(c.Workers, sc)
	}
	return c
}

// genReadersVsWriters draws the "hot readers against node-lock writers" shape: every
// read-side accessor of one File (Size, Mode, ModTime, GetNode, Type, and the listing of its
// parent directory, which calls GetNode/Type/Size for every file while it holds the directory
// lock) is looped by 1-2 reader workers (Step.Rep back-to-back calls on the looked-up object)
// while 1-2 other workers run the operations that take the same File's nodeLock for writing
// (every descriptor Close/Flush, SetMode, SetModTime, File.Flush through FlushPath). With
// Case.Follow the readers keep going for as long as the writers run. A read lock that is
// taken twice on one call path (or any other lock taken in inconsistent order between an
// accessor and an update) wedges as soon as a writer queues in between; the fraction of time
// a hot reader spends between two such acquisitions is a few per cent, and every one of the
// hundreds of writer acquisitions of a case samples it.
func genReadersVsWriters(t *rapid.T) [][]Step {
	f := rapid.IntRange(0, len(filePaths)-1).Draw(t, "hotfile")
	accessor := func(k string) Step {
		s := Step{Kind: k, File: f, Rep: rapid.SampledFrom(repChoices).Draw(t, "rep")}
		if k == "list" {
			s.File, s.Arg = 0, dirOf(f)
			if s.Rep > 16 {
				s.Rep = 16 // a listing is ~16 accessor calls (GetNode, Type, Size of every entry)
			}
		}
		return s
	}
	var ws [][]Step
	// reader A: 2-5 different accessors in a generated order (+ maybe Type)
	perm := rapid.Permutation([]string{"size", "mode", "modtime", "getnode", "list"}).Draw(t, "accessors")
	na := rapid.IntRange(2, len(perm)).Draw(t, "nacc")
	var ra []Step
	for _, k := range perm[:na] {
		ra = append(ra, accessor(k))
	}
	if rapid.IntRange(0, 3).Draw(t, "type") == 0 {
		ra = append(ra, accessor("type"))
	}
	ws = append(ws, ra)
	// reader B (two cases in three): a tight loop over 1-2 accessors
	if rapid.IntRange(0, 2).Draw(t, "readerb") > 0 {
		nb := rapid.IntRange(1, 2).Draw(t, "nb")
		var rb []Step
		for i := 0; i < nb; i++ {
			rb = append(rb, accessor(rapid.SampledFrom([]string{"size", "mode", "modtime", "getnode", "list", "list"}).Draw(t, "bkind")))
		}
		ws = append(ws, rb)
	}
	// writers of the node lock of f
	nw := rapid.IntRange(1, 4-len(ws)).Draw(t, "writers")
	for w := 0; w < nw; w++ {
		n := rapid.IntRange(1, 3).Draw(t, "steps")
		var sc []Step
		for i := 0; i < n; i++ {
			k := rapid.SampledFrom([]string{
				"write", "write", "writeflush", "writemulti", "setmode", "setmtime", "flushpath", "read",
			}).Draw(t, "wkind")
			s := Step{Kind: k, File: f}
			switch k {
			case "write", "writeflush":
				s.Sync = rapid.Bool().Draw(t, "sync")
			case "writemulti":
				s.Sync = rapid.Bool().Draw(t, "sync")
				s.Arg = rapid.IntRange(2, 3).Draw(t, "rounds")
			case "setmode":
				s.Arg = rapid.SampledFrom([]int{0o644, 0o600, 0o755}).Draw(t, "mode")
			}
			sc = append(sc, s)
		}
		ws = append(ws, sc)
	}
	return ws
}

// genOwnerVsFlushers draws the "single owner" shape: worker 0 is the only worker that ever
// looks up file f; all its content writes are acknowledged by a propagating Close/Flush
// (Flags.Sync or descriptor Flush) and it reads them back (read, FlushPath, Root.Flush). The
// other workers flush the directories above f (FlushPath on a directory = Directory.Flush,
// which re-syncs and then empties the directory's child cache), flush the root, list other
// directories and work on files that share no MFS object with f. In this shape no second
// File/Directory object for the path of f can come into being, so the open finding
// DIRFLUSH-STALE does not apply (see dirFlushExplains) and every acknowledged write must
// survive the concurrent directory flushes.
func genOwnerVsFlushers(t *rapid.T) [][]Step {
	f := rapid.IntRange(0, len(filePaths)-1).Draw(t, "ownfile")
	// for a file below /d: may the root directory be flushed as well? (then nobody but the
	// owner may resolve anything below /d)
	rootFlush := f == 0 || rapid.Bool().Draw(t, "rootflush")
	var owner []Step
	n := rapid.IntRange(2, 5).Draw(t, "ownsteps")
	for i := 0; i < n; i++ {
		k := rapid.SampledFrom([]string{
			"write", "write", "write", "writeflush", "writeflush", "writemulti", "writemulti", "read", "read", "read", "flushpath", "flush", "size", "list", "mode", "setmode", "setmtime",
		}).Draw(t, "ownkind")
		if i == 0 {
			k = rapid.SampledFrom([]string{"write", "writeflush", "writemulti"}).Draw(t, "ownfirst")
		}
		s := Step{Kind: k, File: f}
		switch k {
		case "write":
			s.Sync = true
		case "writeflush":
			s.Sync = rapid.Bool().Draw(t, "sync")
		case "writemulti":
			s.Sync = rapid.Bool().Draw(t, "sync")
			s.Arg = rapid.IntRange(2, 3).Draw(t, "rounds")
		case "flush":
			s.File = 0
		case "list":
			s.File = 0
			s.Arg = dirOf(f)
		case "setmode":
			s.Arg = rapid.SampledFrom([]int{0o644, 0o600, 0o755}).Draw(t, "mode")
		}
		owner = append(owner, s)
	}
	ws := [][]Step{owner}
	nw := rapid.IntRange(1, 3).Draw(t, "others")
	for w := 0; w < nw; w++ {
		n := rapid.IntRange(1, 3).Draw(t, "steps")
		var sc []Step
		for i := 0; i < n; i++ {
			var s Step
			if w > 0 && rapid.IntRange(0, 2).Draw(t, "free") == 0 {
				s = genStep(t)
			} else {
				s = Step{Kind: rapid.SampledFrom([]string{"flushdir", "flushdir", "flushdir", "flush"}).Draw(t, "fkind")}
				if s.Kind == "flushdir" {
					s.Arg = rapid.IntRange(0, 1).Draw(t, "arg")
				}
			}
			// the directory flush that races with the owner: the parent of f, or (for a file
			// below /d when the root is flushed) the grandparent
			race := Step{Kind: "flushdir", Arg: dirOf(f)}
			if rootFlush {
				race.Arg = 0
			}
			if s.Kind == "flushdir" && (s.Arg == 0 && !rootFlush || s.Arg == 1 && f == 0) {
				s = race
			}
			if touches(s, f, rootFlush) {
				// would create a second object for the owner's path: flush instead
				s = race
			}
			sc = append(sc, s)
		}
		ws = append(ws, sc)
	}
	return ws
}

// ---------------------------------------------------------------------------
// known finding F10: File.Mode/ModTime take nodeLock.RLock and then call GetNode, which takes
// it again; a writer of nodeLock queued in between deadlocks both. While the finding is open
// the search keeps looking for OTHER deadlocks: Mode()/ModTime() steps on a file are dropped
// when another worker has a step on the same file that takes nodeLock for writing.

const f10 = "F10"

func excludeF10(c Case) (Case, int) {
	out := c
	out.Workers = make([][]Step, len(c.Workers))
	dropped := 0
	for w, sc := range c.Workers {
		for _, s := range sc {
			if isMetaRead(s.Kind) {
				conflict := false
				for w2, sc2 := range c.Workers {
					if w2 == w {
						continue
					}
					for _, s2 := range sc2 {
						if s2.File == s.File && takesNodeWriteLock(s2.Kind) {
							conflict = true
						}
					}
				}
				if conflict {
					dropped++
					s.Kind = "size" // still a reader of the same file, single RLock
				}
			}
			out.Workers[w] = append(out.Workers[w], s)
		}
	}
	return out, dropped
}

// ---------------------------------------------------------------------------
// parent side: run the case in a child process under a watchdog

type violation struct {
	Kind string `json:"kind"` // lost-write | panic
	File int    `json:"file"` // token file of a lost write (-1: none)
	Msg  string `json:"msg"`
}

type childResult struct {
	Done      bool     `json:"done"`
	Violation string   `json:"violation,omitempty"` // the first violation seen
	Kind      string   `json:"kind,omitempty"`      // lost-write | panic
	File      int      `json:"file"`                // token file of a lost write
	// the first violation of every (kind, file) in the order seen
	Violations []violation `json:"violations,omitempty"`
	Errors    []string `json:"errors,omitempty"` // unexpected (non-property) errors, informational
	Ops       int64    `json:"ops"`
	Acked     int      `json:"acked"`
}

var inconclusive atomic.Int64 // cases that timed out without the deadlock signature

func watchdog() time.Duration {
	if v := os.Getenv("C20_WATCHDOG_S"); v != "" {
		if n, err := strconv.Atoi(v); err == nil && n > 0 {
			return time.Duration(n) * time.Second
		}
	}
	return 20 * time.Second
}

type childOutcome struct {
	res      *childResult
	timedOut bool
	deadlock bool
	dump     string // goroutine dump / stderr tail
	crash    string
}

func runChild(c Case, limit time.Duration) (childOutcome, error) {
	dir, err := os.MkdirTemp("", "c20-")
	if err != nil {
		return childOutcome{}, err
	}
	defer os.RemoveAll(dir)
	cj, _ := json.Marshal(c)
	casePath, outPath := dir+"/case.json", dir+"/out.json"
	if err := os.WriteFile(casePath, cj, 0o644); err != nil {
		return childOutcome{}, err
	}
	cmd := exec.Command(os.Args[0], "-test.run", "^TestChildC20$", "-test.timeout", "0")
	for _, e := range os.Environ() {
		if strings.HasPrefix(e, "VERIF_STATS=") || strings.HasPrefix(e, "VERIF_REPLAY=") || strings.HasPrefix(e, "GOTRACEBACK=") {
			continue
		}
		cmd.Env = append(cmd.Env, e)
	}
	cmd.Env = append(cmd.Env, "C20_CHILD_CASE="+casePath, "C20_CHILD_OUT="+outPath, "GOTRACEBACK=all")
	var stderr bytes.Buffer
	cmd.Stdout = io.Discard
	cmd.Stderr = &stderr
	if err := cmd.Start(); err != nil {
		return childOutcome{}, err
	}
	done := make(chan error, 1)
	go func() { done <- cmd.Wait() }()
	var o childOutcome
	var werr error
	select {
	case werr = <-done:
	case <-time.After(limit):
		o.timedOut = true
		cmd.Process.Signal(syscall.SIGQUIT) // the Go runtime dumps all goroutines and exits
		select {
		case <-done:
		case <-time.After(20 * time.Second):
			cmd.Process.Kill()
			<-done
		}
	}
	o.dump = stderr.String()
	if o.timedOut {
		o.deadlock = deadlockSignature(o.dump)
		return o, nil
	}
	if b, rerr := os.ReadFile(outPath); rerr == nil {
		var r childResult
		if json.Unmarshal(b, &r) == nil && r.Done {
			o.res = &r
			return o, nil
		}
	}
	o.crash = fmt.Sprintf("child exited (%v) without a result", werr)
	return o, nil
}

var lockFrame = regexp.MustCompile(`(?m)^sync\.\(\*(RWMutex\)\.(RLock|Lock)|Mutex\)\.Lock)\(`)

// deadlockSignature reports whether the SIGQUIT dump shows at least one unfinished worker and
// every unfinished worker parked in an RWMutex/Mutex acquisition below an mfs frame.
func deadlockSignature(dump string) bool {
	blocks := strings.Split(dump, "\n\ngoroutine ")
	workers, parked := 0, 0
	for _, b := range blocks {
		if !strings.Contains(b, "props/c20.(*childRun).worker(") {
			continue
		}
		workers++
		if lockFrame.MatchString(b) && strings.Contains(b, "github.com/ipfs/boxo/mfs.") {
			parked++
		}
	}
	return workers > 0 && parked == workers
}

// libraryCrash reports whether the child died from a runtime fatal error / panic whose
// first stack has an mfs frame (e.g. "concurrent map writes" inside the library).
func libraryCrash(stderr string) (string, bool) {
	i := strings.Index(stderr, "fatal error: ")
	if i < 0 {
		i = strings.Index(stderr, "panic: ")
	}
	if i < 0 {
		return "", false
	}
	tail := stderr[i:]
	first := tail
	if j := strings.Index(tail, "\n\ngoroutine "); j >= 0 {
		if k := strings.Index(tail[j+2:], "\n\n"); k >= 0 {
			first = tail[:j+2+k]
		}
	}
	if strings.Contains(first, "github.com/ipfs/boxo/") {
		if len(first) > 3000 {
			first = first[:3000]
		}
		return first, true
	}
	return "", false
}

func run(c Case) kit.Result {
	eff := c
	dropped := 0
	if !c.NoExclude && kit.OpenFinding("C20", f10) {
		eff, dropped = excludeF10(c)
	}
	classes := classify(eff)
	if dropped > 0 {
		classes = append(classes, "excluded:F10")
	}
	limit := watchdog()
	for attempt := 0; ; attempt++ {
		o, err := runChild(eff, limit)
		if err != nil {
			// harness problem (cannot start the child): not a verdict on the property
			inconclusive.Add(1)
			fmt.Printf("C20 INCONCLUSIVE: cannot run child: %v\n", err)
			return kit.Result{Classes: append(classes, "inconclusive:harness")}
		}
		switch {
		case o.timedOut && o.deadlock:
			return kit.Result{
				Err:   fmt.Errorf("deadlock: workers did not finish within %v and every unfinished worker is parked in a sync lock inside boxo/mfs:\n%s", limit, workerStacks(o.dump)),
				Known: knownDeadlock(o.dump),
			}
		case o.timedOut:
			if attempt == 0 {
				// maybe just a starved machine: try once more with a much longer limit
				limit *= 4
				classes = append(classes, "retried-after-timeout")
				continue
			}
			inconclusive.Add(1)
			fmt.Printf("C20 INCONCLUSIVE: case timed out twice (last limit %v) without the deadlock signature; goroutine dump tail:\n%s\n", limit, tailOf(o.dump, 4000))
			return kit.Result{Classes: append(classes, "inconclusive:timeout")}
		case o.res == nil:
			if msg, ok := libraryCrash(o.dump); ok {
				return kit.Fail("the library crashed the process under concurrent use:\n%s", msg)
			}
			inconclusive.Add(1)
			fmt.Printf("C20 INCONCLUSIVE: %s; stderr tail:\n%s\n", o.crash, tailOf(o.dump, 4000))
			return kit.Result{Classes: append(classes, "inconclusive:child-died")}
		case o.res.Violation != "":
			// Several files can show a violation in one run; report one that no open finding
			// explains, if there is any, so that a known defect on one file does not hide an
			// unexplained loss on another.
			vs := o.res.Violations
			if len(vs) == 0 {
				vs = []violation{{Kind: o.res.Kind, File: o.res.File, Msg: o.res.Violation}}
			}
			first := kit.Result{}
			for i, v := range vs {
				res := kit.Fail("%s", v.Msg)
				if v.Kind == "lost-write" {
					res.Known = attribute(eff, v.File)
				}
				if res.Known == "" || c.NoExclude || !kit.OpenFinding("C20", res.Known) {
					return res
				}
				if i == 0 {
					first = res
				}
			}
			return first
		}
		if len(o.res.Errors) > 0 {
			classes = append(classes, "unexpected-op-error")
		}
		return kit.Result{NonTrivial: nonTrivial(eff), Classes: classes}
	}
}

// Known finding DIRFLUSH-STALE: FlushPath on a directory (Directory.Flush) empties the
// directory's child cache while other goroutines still use the File/Directory objects they
// looked up before. What that finding explains (and only that is excluded while it is open):
//
//	(a) a write acknowledged by a NON-propagating Close (descriptor without Flags.Sync and
//	    without Flush): the new node lives only in the File object; once the object has been
//	    dropped from the cache nobody ever copies it into the directory;
//	(b) two workers looking up the same path: one gets the object from before the flush, the
//	    other a fresh one made from the directory entry; the two objects do not exclude each
//	    other and the next cache sync writes the stale one over the entry. For a file below /d
//	    the same happens one level up with the Directory object of /d when "/" is flushed.
//
// It does NOT explain the loss of a write that was acknowledged by a propagating Close/Flush
// to a file which only one worker ever looks up: the bubbling update stores the new node in
// the File object first and then in the directory entry (under the directory lock), so a
// concurrent Directory.Flush sees either the old node and is overwritten by the update, or
// the new one. Such a loss is reported.
const dirFlushStale = "DIRFLUSH-STALE"

// Known finding META-LOST-UPDATE: File.SetMode/SetModTime read the file node, build a new
// node from it and store it without excluding writers (no desclock, nodeLock only around the
// final assignment); a descriptor Close/Flush that lands in between is overwritten, so an
// acknowledged write disappears. While it is open, a lost write to a file that one worker
// SetMode/SetModTime's while ANOTHER worker writes it is attributed to it.
const metaLostUpdate = "META-LOST-UPDATE"

// attribute names the open finding whose mechanism can have produced a lost write to file f
// in case c ("" = none: the loss is reported).
func attribute(c Case, f int) string {
	switch {
	case dirFlushExplains(c, f):
		return dirFlushStale
	case metaExplains(c, f):
		return metaLostUpdate
	}
	return ""
}

func dirOf(f int) int { // index of the directory holding token file f: 0 = "/", 1 = "/d"
	if f == 0 {
		return 0
	}
	return 1
}

// instantiatesD: the step obtains the Directory object of /d from the root directory: it
// resolves a path below /d, or lists "/" (a listing instantiates every child of the listed
// directory, sub-directories included).
func instantiatesD(s Step) bool {
	switch {
	case isFileOp(s.Kind):
		return s.File != 0
	case s.Kind == "list":
		return true // "/d" is resolved, "/" instantiates all its children
	case s.Kind == "flushdir":
		return s.Arg == 1
	case s.Kind == "mv" || s.Kind == "mvdir":
		return true
	}
	return false
}

// touches: the step obtains an MFS object on the path of token file f - the File object
// itself (any operation on f, or a listing of its directory, which instantiates every
// child) or, when the root directory is flushed somewhere in the case, the Directory object
// of /d above it.
func touches(s Step, f int, rootFlushed bool) bool {
	if isFileOp(s.Kind) && s.File == f {
		return true
	}
	if s.Kind == "list" && s.Arg == dirOf(f) {
		return true
	}
	return f != 0 && rootFlushed && instantiatesD(s)
}

func dirFlushExplains(c Case, f int) bool {
	rootFlushed := hasStepArg(c, "flushdir", 0)
	if !rootFlushed && !(f != 0 && hasStepArg(c, "flushdir", 1)) {
		return false // no directory above f is ever flushed
	}
	users := 0
	for _, sc := range c.Workers {
		uses := false
		for _, s := range sc {
			if s.Kind == "write" && s.File == f && !s.Sync {
				return true // (a)
			}
			if touches(s, f, rootFlushed) {
				uses = true
			}
		}
		if uses {
			users++
		}
	}
	return users > 1 // (b)
}

func metaExplains(c Case, f int) bool {
	for w, sc := range c.Workers {
		for _, s := range sc {
			if (s.Kind != "setmode" && s.Kind != "setmtime") || s.File != f {
				continue
			}
			for w2, sc2 := range c.Workers {
				if w2 == w {
					continue
				}
				for _, s2 := range sc2 {
					if (s2.Kind == "write" || s2.Kind == "writeflush" || s2.Kind == "writemulti") && s2.File == f {
						return true
					}
				}
			}
		}
	}
	return false
}

func hasStepArg(c Case, kind string, arg int) bool {
	for _, sc := range c.Workers {
		for _, s := range sc {
			if s.Kind == kind && s.Arg == arg {
				return true
			}
		}
	}
	return false
}

// knownDeadlock names the F10 signature: some worker is inside File.Mode/ModTime -> GetNode.
func knownDeadlock(dump string) string {
	for _, b := range strings.Split(dump, "\n\ngoroutine ") {
		if !strings.Contains(b, "props/c20.(*childRun).worker(") {
			continue
		}
		if strings.Contains(b, "mfs.(*File).GetNode(") &&
			(strings.Contains(b, "mfs.(*File).Mode(") || strings.Contains(b, "mfs.(*File).ModTime(")) {
			return f10
		}
	}
	return ""
}

func workerStacks(dump string) string {
	var sb strings.Builder
	for _, b := range strings.Split(dump, "\n\ngoroutine ") {
		if !strings.Contains(b, "props/c20.(*childRun).worker(") {
			continue
		}
		lines := strings.Split(b, "\n")
		var keep []string
		for _, l := range lines {
			if strings.HasPrefix(l, "\t") {
				continue
			}
			keep = append(keep, l)
			if len(keep) > 12 {
				break
			}
		}
		sb.WriteString("goroutine " + strings.Join(keep, "\n  ") + "\n")
	}
	return sb.String()
}

func tailOf(s string, n int) string {
	if len(s) > n {
		return s[len(s)-n:]
	}
	return s
}

func classify(c Case) []string {
	set := map[string]bool{fmt.Sprintf("procs:%d", c.Procs): true, fmt.Sprintf("workers:%d", len(c.Workers)): true}
	for _, sc := range c.Workers {
		for _, s := range sc {
			set["op:"+s.Kind] = true
		}
	}
	if metaReaderVsWriter(c) {
		set["meta-reader-vs-writer"] = true
	}
	for _, k := range []string{"size", "mode", "modtime", "getnode", "type", "list"} {
		if hot, any := accessorVsNodeWriter(c, k); any {
			set["accessor-vs-nodelock-writer:"+k] = true
			if hot {
				set["hot-accessor-vs-nodelock-writer:"+k] = true
			}
		}
	}
	if c.Follow {
		set["follow"] = true
	}
	for _, sc := range c.Workers {
		for _, s := range sc {
			if s.Kind == "writemulti" {
				set["one-descriptor-flush-writeat-flush"] = true
			}
		}
	}
	if ownerVsDirFlush(c) {
		set["sole-owner-sync-write-vs-dirflush"] = true
	}
	if c.Sched == nil {
		set["sched:none"] = true
	} else {
		set["sched:"+c.Sched.Mode] = true
	}
	var out []string
	for k := range set {
		out = append(out, k)
	}
	sort.Strings(out)
	return out
}

func isFileOp(k string) bool {
	switch k {
	case "read", "write", "writeflush", "writemulti", "mode", "modtime", "getnode", "type", "setmode", "setmtime", "size", "flushpath":
		return true
	}
	return false
}

func isWriter(k string) bool {
	switch k {
	case "write", "writeflush", "writemulti", "setmode", "setmtime":
		return true
	}
	return false
}

// accessorVsNodeWriter: accessor k (a listing: of the parent directory) of some file in one
// worker, an operation that takes the same file's nodeLock for writing in another; hot: the
// accessor is looped (Rep >= 8, or a follower).
func accessorVsNodeWriter(c Case, k string) (hot, any bool) {
	for w, sc := range c.Workers {
		for _, s := range sc {
			if s.Kind != k {
				continue
			}
			for w2, sc2 := range c.Workers {
				if w2 == w {
					continue
				}
				for _, s2 := range sc2 {
					if !takesNodeWriteLock(s2.Kind) {
						continue
					}
					if k == "list" && s.Arg != dirOf(s2.File) || k != "list" && s.File != s2.File {
						continue
					}
					any = true
					if s.Rep >= 8 || c.Follow && isFollower(sc) {
						hot = true
					}
				}
			}
		}
	}
	return hot, any
}

// metaReaderVsWriter: a Mode()/ModTime() reader in one worker, a writer of the same file in another.
func metaReaderVsWriter(c Case) bool {
	for w, sc := range c.Workers {
		for _, s := range sc {
			if !isMetaRead(s.Kind) {
				continue
			}
			for w2, sc2 := range c.Workers {
				if w2 == w {
					continue
				}
				for _, s2 := range sc2 {
					if s2.File == s.File && isWriter(s2.Kind) {
						return true
					}
				}
			}
		}
	}
	return false
}

// ownerVsDirFlush: some file gets propagating (Sync / descriptor Flush) content writes from a
// worker while ANOTHER worker flushes a directory above it, and the open finding
// DIRFLUSH-STALE does not cover that file (single owner, no non-propagating write): every
// acknowledged write has to survive the directory flushes.
func ownerVsDirFlush(c Case) bool {
	for f := range filePaths {
		if dirFlushExplains(c, f) {
			continue
		}
		for w, sc := range c.Workers {
			for _, s := range sc {
				if !(s.File == f && (s.Kind == "writeflush" || s.Kind == "writemulti" || s.Kind == "write" && s.Sync)) {
					continue
				}
				for w2, sc2 := range c.Workers {
					if w2 == w {
						continue
					}
					for _, s2 := range sc2 {
						if s2.Kind == "flushdir" && (s2.Arg == 0 || f != 0) {
							return true
						}
					}
				}
			}
		}
	}
	return false
}

// nonTrivial: two different workers operate on the same file and at least one of them writes
// (content or metadata) to it, or one worker writes a file while another flushes a directory
// above it (ownerVsDirFlush).
func nonTrivial(c Case) bool {
	if ownerVsDirFlush(c) {
		return true
	}
	for w, sc := range c.Workers {
		for _, s := range sc {
			if !isWriter(s.Kind) {
				continue
			}
			for w2, sc2 := range c.Workers {
				if w2 == w {
					continue
				}
				for _, s2 := range sc2 {
					if isFileOp(s2.Kind) && s2.File == s.File {
						return true
					}
				}
			}
		}
	}
	return false
}

var spec = kit.Spec[Case]{
	Prop: "C20", Name: "conc",
	Rule:  "2-4 real goroutines in a child process (GOMAXPROCS 2|16), each looping 60-500 times over a generated script (<=6 steps) of read / slot write (+-Sync, +-descriptor Flush, or 2-3 WriteAt+Flush rounds and a WriteAt+Close on ONE descriptor) / Mode / ModTime / GetNode / Type / SetMode / SetModTime / Size / List / Root.Flush / FlushPath(file|dir) / Mv(file|dir) on 3 shared files in 2 directories, read-side accessors optionally repeated 8-512 times back to back on the looked-up object; one case in four has the single-owner shape (one worker owns a file and acknowledges every write by a propagating Close/Flush, the others flush the directories above it); one case in four has the hot-readers shape (1-2 workers loop 2-6 of the read-side accessors Size/Mode/ModTime/GetNode/Type/List-of-parent of one file, mostly for as long as the others run, while 1-2 workers run operations that take that file's node lock for writing: descriptor Close/Flush of readers and writers, SetMode, SetModTime, FlushPath); three cases in four run with generated scheduling points at the DAGService.Add/Get boundary (every k-th call: hand-off until other workers completed 1-2 steps, or sleep/yield), which widen the lock-free windows of every update that bubbles up the tree; liveness by watchdog + SIGQUIT dump signature, safety by per-worker slots with growing sequence numbers in each file (a write whose Close/Flush returned before a read/flush began must be visible in what that read/flush returns, and in the final flushed root); non-trivial = two workers operate on the same file and one of them writes content or metadata, or one worker writes a file with propagating Close/Flush while another flushes a directory above it",
	Quick: 40, Thorough: 75,
	Gen: gen, Run: run,
}

func TestPropConc(t *testing.T) {
	kit.All(t, spec)
	if n := inconclusive.Load(); n > 0 {
		// not a property failure: no VERIF-FAIL line, the driver maps this to INCONCLUSIVE (exit 2)
		t.Errorf("C20 INCONCLUSIVE: %d case(s) could not be decided (timeout without the deadlock signature, or child died); see log", n)
	}
}

// ---------------------------------------------------------------------------
// child side

type childRun struct {
	ctx   context.Context
	dserv ipld.DAGService
	root  *mfs.Root
	c     Case

	mu     sync.Mutex
	acked  [][]int // per token file and worker slot: highest sequence number whose Close/Flush has returned nil
	viol   string
	vkind  string
	vfile  int
	viols  []violation
	// scheduling points (Case.Sched)
	stepsDone atomic.Int64 // completed steps of all workers
	active    atomic.Int64 // workers still running
	leaders   atomic.Int64 // non-follower workers still running (Case.Follow)
	followed  bool         // Case.Follow and there is at least one non-follower worker
	errs   []string
	nerrs  int
	ops    atomic.Int64
	mtimeN atomic.Int64
}

func (r *childRun) violation(kind string, file int, format string, a ...any) {
	r.mu.Lock()
	if r.viol == "" {
		r.viol = fmt.Sprintf(format, a...)
		r.vkind, r.vfile = kind, file
	}
	seen := false
	for _, v := range r.viols {
		if v.Kind == kind && v.File == file {
			seen = true
		}
	}
	if !seen {
		r.viols = append(r.viols, violation{Kind: kind, File: file, Msg: fmt.Sprintf(format, a...)})
	}
	r.mu.Unlock()
}

func (r *childRun) failed() bool {
	r.mu.Lock()
	defer r.mu.Unlock()
	return r.viol != ""
}

func (r *childRun) opError(what string, err error) {
	r.mu.Lock()
	r.nerrs++
	if len(r.errs) < 10 {
		r.errs = append(r.errs, what+": "+err.Error())
	}
	r.mu.Unlock()
}

func (r *childRun) snapshot(f int) []int {
	r.mu.Lock()
	defer r.mu.Unlock()
	return append([]int(nil), r.acked[f]...)
}

func (r *childRun) snapshotAll() [][]int {
	r.mu.Lock()
	defer r.mu.Unlock()
	out := make([][]int, len(r.acked))
	for i := range r.acked {
		out[i] = append([]int(nil), r.acked[i]...)
	}
	return out
}

func (r *childRun) ack(f, w, n int) {
	r.mu.Lock()
	if n > r.acked[f][w] {
		r.acked[f][w] = n
	}
	r.mu.Unlock()
}

// Every token file consists of maxWorkers fixed slots of tokenLen bytes; worker w only ever
// overwrites slot w with its next sequence number (one WriteAt per acknowledgement; a
// "writemulti" step keeps one descriptor across several WriteAt+Flush rounds). A write is
// acknowledged when the descriptor's Flush or Close has returned nil after it. Sequence numbers of a
// slot only grow, so "acknowledged write (w,n) is visible" means: slot w reads >= n. The
// files stay 48 bytes long, which keeps every operation cheap.
const (
	tokenLen   = 12
	maxWorkers = 4
)

func token(w, n int) string { return fmt.Sprintf("w%02dn%07d;", w, n) } // 12 bytes

func initialContent() []byte {
	var b []byte
	for w := 0; w < maxWorkers; w++ {
		b = append(b, token(w, 0)...)
	}
	return b
}

func anyAcked(want []int) bool {
	for _, n := range want {
		if n > 0 {
			return true
		}
	}
	return false
}

// lost reports the first acknowledged write that content b does not show.
func lost(b []byte, want []int) (string, bool) {
	for w, n := range want {
		if n == 0 {
			continue
		}
		if len(b) < (w+1)*tokenLen {
			return fmt.Sprintf("%q (content has only %d bytes)", token(w, n), len(b)), true
		}
		slot := string(b[w*tokenLen : (w+1)*tokenLen])
		var gw, gn int
		if _, err := fmt.Sscanf(slot, "w%02dn%07d;", &gw, &gn); err != nil || gw != w {
			return fmt.Sprintf("%q (slot holds %q)", token(w, n), slot), true
		}
		if gn < n {
			return fmt.Sprintf("%q (slot holds the older %q)", token(w, n), slot), true
		}
	}
	return "", false
}

func (r *childRun) file(f int) (*mfs.File, error) {
	n, err := mfs.Lookup(r.root, filePaths[f])
	if err != nil {
		return nil, err
	}
	fi, ok := n.(*mfs.File)
	if !ok {
		return nil, fmt.Errorf("%s is %T", filePaths[f], n)
	}
	return fi, nil
}

func (r *childRun) readDAGFile(nd ipld.Node) ([]byte, error) {
	dr, err := uio.NewDagReader(r.ctx, nd, r.dserv)
	if err != nil {
		return nil, err
	}
	defer dr.Close()
	return io.ReadAll(dr)
}

// resolveDAG walks a flushed root through uio.Directory to the node at path.
func (r *childRun) resolveDAG(root ipld.Node, path string) (ipld.Node, error) {
	cur := root
	for _, p := range strings.Split(strings.Trim(path, "/"), "/") {
		d, err := uio.NewDirectoryFromNode(r.dserv, cur)
		if err != nil {
			return nil, err
		}
		cur, err = d.Find(r.ctx, p)
		if err != nil {
			return nil, err
		}
	}
	return cur, nil
}

func (r *childRun) checkFlushedRoot(when string, want [][]int) {
	nd, err := r.root.GetDirectory().GetNode()
	if err != nil {
		r.opError(when+": root GetNode", err)
		return
	}
	for f, p := range filePaths {
		if !anyAcked(want[f]) {
			continue
		}
		fn, err := r.resolveDAG(nd, p)
		if err != nil {
			r.violation("lost-write", f, "%s: %s cannot be resolved in the flushed root although writes to it were acknowledged: %v", when, p, err)
			continue
		}
		b, err := r.readDAGFile(fn)
		if err != nil {
			r.violation("lost-write", f, "%s: %s in the flushed root cannot be read: %v", when, p, err)
			continue
		}
		if tok, miss := lost(b, want[f]); miss {
			r.violation("lost-write", f, "%s: write %s to %s, acknowledged before the flush began, is not in the flushed root", when, tok, p)
		}
	}
}

func (r *childRun) step(w int, s Step, seq *int) {
	r.ops.Add(1)
	switch s.Kind {
	case "read":
		want := r.snapshot(s.File)
		fi, err := r.file(s.File)
		if err != nil {
			r.opError("lookup", err)
			return
		}
		fd, err := fi.Open(r.ctx, mfs.Flags{Read: true})
		if err != nil {
			r.opError("open(read)", err)
			return
		}
		b, err := io.ReadAll(fd)
		cerr := fd.Close()
		if err != nil {
			r.opError("read", err)
			return
		}
		if cerr != nil {
			r.opError("close(read)", cerr)
		}
		if tok, miss := lost(b, want); miss {
			r.violation("lost-write", s.File, "worker %d read of %s: write %s, acknowledged before the read began, is not visible", w, filePaths[s.File], tok)
		}

	case "write", "writeflush":
		fi, err := r.file(s.File)
		if err != nil {
			r.opError("lookup", err)
			return
		}
		fd, err := fi.Open(r.ctx, mfs.Flags{Write: true, Sync: s.Sync})
		if err != nil {
			r.opError("open(write)", err)
			return
		}
		*seq++
		tok := token(w, *seq)
		n, err := fd.WriteAt([]byte(tok), int64(w*tokenLen))
		if err != nil || n != len(tok) {
			if err == nil {
				err = errors.New("short write")
			}
			r.opError("writeat", err)
			fd.Close()
			return
		}
		if s.Kind == "writeflush" {
			if err := fd.Flush(); err != nil {
				r.opError("fd.flush", err)
				fd.Close()
				return
			}
			r.ack(s.File, w, *seq) // flushed: acknowledged
			if err := fd.Close(); err != nil {
				r.opError("close(write)", err)
			}
			return
		}
		if err := fd.Close(); err != nil {
			r.opError("close(write)", err)
			return
		}
		r.ack(s.File, w, *seq) // descriptor closed: acknowledged

	case "writemulti":
		// ONE descriptor kept across several WriteAt+Flush rounds (each Flush acknowledges the
		// token written before it); with Flags.Sync one more WriteAt is acknowledged by Close.
		fi, err := r.file(s.File)
		if err != nil {
			r.opError("lookup", err)
			return
		}
		fd, err := fi.Open(r.ctx, mfs.Flags{Write: true, Sync: s.Sync})
		if err != nil {
			r.opError("open(write)", err)
			return
		}
		writeTok := func() bool {
			*seq++
			tok := token(w, *seq)
			n, err := fd.WriteAt([]byte(tok), int64(w*tokenLen))
			if err != nil || n != len(tok) {
				if err == nil {
					err = errors.New("short write")
				}
				r.opError("writeat", err)
				return false
			}
			return true
		}
		for k := 0; k < s.Arg; k++ {
			if !writeTok() {
				fd.Close()
				return
			}
			if err := fd.Flush(); err != nil {
				r.opError("fd.flush", err)
				fd.Close()
				return
			}
			r.ack(s.File, w, *seq) // flushed: acknowledged
		}
		if s.Sync {
			if !writeTok() {
				fd.Close()
				return
			}
			if err := fd.Close(); err != nil {
				r.opError("close(write)", err)
				return
			}
			r.ack(s.File, w, *seq) // descriptor (Flags.Sync) closed: acknowledged
			return
		}
		if err := fd.Close(); err != nil {
			r.opError("close(write)", err)
		}

	case "mode", "modtime", "getnode", "type", "setmode", "setmtime", "size":
		fi, err := r.file(s.File)
		if err != nil {
			r.opError("lookup", err)
			return
		}
		reps := 1
		if isAccessor(s.Kind) && s.Rep > 1 {
			reps = s.Rep
		}
		for k := 0; k < reps && err == nil; k++ {
			switch s.Kind {
			case "mode":
				_, err = fi.Mode()
			case "modtime":
				_, err = fi.ModTime()
			case "getnode":
				_, err = fi.GetNode()
			case "type":
				if fi.Type() != mfs.TFile {
					err = errors.New("File.Type() is not TFile")
				}
			case "setmode":
				err = fi.SetMode(os.FileMode(s.Arg))
			case "setmtime":
				err = fi.SetModTime(time.Unix(1_700_000_000+r.mtimeN.Add(1), 0))
			case "size":
				_, err = fi.Size()
			}
		}
		if err != nil {
			r.opError(s.Kind, err)
		}

	case "list":
		p := "/"
		if s.Arg == 1 {
			p = "/d"
		}
		n, err := mfs.Lookup(r.root, p)
		if err != nil {
			r.opError("lookup dir", err)
			return
		}
		d := n.(*mfs.Directory)
		reps := 1
		if s.Rep > 1 {
			reps = s.Rep
		}
		for k := 0; k < reps; k++ {
			if _, err := d.List(r.ctx); err != nil {
				r.opError("list", err)
				break
			}
		}
		if _, err := d.ListNames(r.ctx); err != nil {
			r.opError("listnames", err)
		}

	case "flush":
		want := r.snapshotAll()
		if err := r.root.Flush(); err != nil {
			r.opError("root.flush", err)
			return
		}
		r.checkFlushedRoot(fmt.Sprintf("worker %d Root.Flush", w), want)

	case "flushpath":
		want := r.snapshot(s.File)
		nd, err := mfs.FlushPath(r.ctx, r.root, filePaths[s.File])
		if err != nil {
			r.opError("flushpath", err)
			return
		}
		b, err := r.readDAGFile(nd)
		if err != nil {
			r.opError("read flushed node", err)
			return
		}
		if tok, miss := lost(b, want); miss {
			r.violation("lost-write", s.File, "worker %d FlushPath(%s): write %s, acknowledged before the call, is not in the returned node", w, filePaths[s.File], tok)
		}

	case "flushdir":
		p := "/"
		if s.Arg == 1 {
			p = "/d"
		}
		if _, err := mfs.FlushPath(r.ctx, r.root, p); err != nil {
			r.opError("flushpath dir", err)
		}

	case "mv":
		// errors are expected here: several workers may move the same entry
		if s.Arg == 0 {
			mfs.Mv(r.root, movFileA, movFileB)
		} else {
			mfs.Mv(r.root, movFileB, movFileA)
		}
	case "mvdir":
		if s.Arg == 0 {
			mfs.Mv(r.root, movDirA, movDirB)
		} else {
			mfs.Mv(r.root, movDirB, movDirA)
		}
	}
}

func (r *childRun) worker(w int, script []Step, wg *sync.WaitGroup) {
	defer wg.Done()
	defer func() {
		if p := recover(); p != nil {
			r.violation("panic", -1, "worker %d: panic under concurrent use: %v\n%s", w, p, debug.Stack())
		}
	}()
	defer r.active.Add(-1)
	seq := 0
	if r.c.Follow && isFollower(script) && r.followed {
		// hot readers: repeat the script until every non-follower has finished; the call
		// budget ends a follower whose writers are stuck
		perPass := 0
		for _, s := range script {
			n := max(s.Rep, 1)
			if s.Kind == "list" {
				n *= 16
			}
			perPass += n
		}
		for calls := 0; calls < followBudget; calls += perPass {
			for _, s := range script {
				r.step(w, s, &seq)
				r.stepsDone.Add(1)
				// with few Ps the spinning followers must not starve the workers they follow
				runtime.Gosched()
			}
			if r.leaders.Load() == 0 {
				break
			}
		}
		return
	}
	if r.c.Follow && r.followed {
		defer r.leaders.Add(-1)
	}
	for i := 0; i < r.c.Loops; i++ {
		for _, s := range script {
			r.step(w, s, &seq)
			r.stepsDone.Add(1)
		}
	}
}

// schedDAG turns the DAGService calls of MFS into scheduling points owned by the harness
// (Case.Sched). It changes no result of any call.
type schedDAG struct {
	ipld.DAGService
	r  *childRun
	sc Sched
	n  atomic.Int64
}

func isDirNode(nd ipld.Node) bool {
	pn, ok := nd.(*dag.ProtoNode)
	if !ok {
		return false
	}
	fsn, err := ft.FSNodeFromBytes(pn.Data())
	if err != nil {
		return false
	}
	return fsn.Type() == ft.TDirectory || fsn.Type() == ft.THAMTShard
}

func (d *schedDAG) point() {
	if d.sc.Every > 1 && d.n.Add(1)%int64(d.sc.Every) != 0 {
		return
	}
	if d.r.active.Load() < 2 {
		return // nobody to interleave with (setup, final checks, last worker)
	}
	for i := 0; i < d.sc.Yields; i++ {
		runtime.Gosched()
	}
	switch d.sc.Mode {
	case "handoff":
		start := d.r.stepsDone.Load()
		deadline := time.Now().Add(time.Duration(d.sc.WaitUs) * time.Microsecond)
		for spin := 0; d.r.stepsDone.Load()-start < int64(d.sc.Steps) && d.r.active.Load() >= 2; spin++ {
			if spin%8 == 7 {
				if time.Now().After(deadline) {
					return
				}
				time.Sleep(10 * time.Microsecond)
			} else {
				runtime.Gosched()
			}
		}
	default:
		if d.sc.WaitUs > 0 {
			time.Sleep(time.Duration(d.sc.WaitUs) * time.Microsecond)
		}
	}
}

func (d *schedDAG) Add(ctx context.Context, nd ipld.Node) error {
	if d.sc.On != "get" {
		switch d.sc.Nodes {
		case "dir":
			if isDirNode(nd) {
				d.point()
			}
		case "file":
			if !isDirNode(nd) {
				d.point()
			}
		default:
			d.point()
		}
	}
	return d.DAGService.Add(ctx, nd)
}

func (d *schedDAG) Get(ctx context.Context, c cid.Cid) (ipld.Node, error) {
	if d.sc.On == "get" || d.sc.On == "both" {
		d.point()
	}
	return d.DAGService.Get(ctx, c)
}

func newDagserv() ipld.DAGService {
	db := dssync.MutexWrap(ds.NewMapDatastore())
	bs := bstore.NewBlockstore(db)
	return dag.NewDAGService(bserv.New(bs, offline.Exchange(bs)))
}

func (r *childRun) setup() error {
	var err error
	r.root, err = mfs.NewEmptyRoot(r.ctx, r.dserv, func(context.Context, cid.Cid) error { return nil }, nil)
	if err != nil {
		return err
	}
	for _, d := range []string{"/d", movDirA} {
		if err := mfs.Mkdir(r.root, d, mfs.MkdirOpts{}); err != nil {
			return err
		}
	}
	init := initialContent()
	for _, p := range filePaths {
		nd := dag.NodeWithData(ft.FilePBData(init, uint64(len(init))))
		if err := mfs.PutNode(r.root, p, nd); err != nil {
			return err
		}
	}
	if err := mfs.PutNode(r.root, movFileA, dag.NodeWithData(ft.FilePBData(nil, 0))); err != nil {
		return err
	}
	return r.root.Flush()
}

func runInChild(c Case) childResult {
	runtime.GOMAXPROCS(c.Procs)
	ctx, cancel := context.WithCancel(context.Background())
	defer cancel()
	r := &childRun{ctx: ctx, dserv: newDagserv(), c: c, acked: make([][]int, len(filePaths))}
	if c.Sched != nil {
		r.dserv = &schedDAG{DAGService: r.dserv, r: r, sc: *c.Sched}
	}
	for f := range r.acked {
		r.acked[f] = make([]int, maxWorkers)
	}
	if err := r.setup(); err != nil {
		return childResult{Done: true, Errors: []string{"setup: " + err.Error()}}
	}
	var wg sync.WaitGroup
	r.active.Store(int64(len(c.Workers)))
	if c.Follow {
		n := 0
		for _, sc := range c.Workers {
			if !isFollower(sc) {
				n++
			}
		}
		r.leaders.Store(int64(n))
		r.followed = n > 0 // nobody to follow: everybody just runs Loops passes
	}
	for w, sc := range c.Workers {
		wg.Add(1)
		go r.worker(w, sc, &wg)
	}
	wg.Wait()
	if !r.failed() {
		// every acknowledged write is visible in later reads ...
		for f := range filePaths {
			want := r.snapshot(f)
			fi, err := r.file(f)
			if err != nil {
				r.violation("lost-write", f, "final: %s cannot be looked up: %v", filePaths[f], err)
				continue
			}
			fd, err := fi.Open(ctx, mfs.Flags{Read: true})
			if err != nil {
				r.violation("lost-write", f, "final: %s cannot be opened: %v", filePaths[f], err)
				continue
			}
			b, err := io.ReadAll(fd)
			fd.Close()
			if err != nil {
				r.violation("lost-write", f, "final: %s cannot be read: %v", filePaths[f], err)
				continue
			}
			if tok, miss := lost(b, want); miss {
				r.violation("lost-write", f, "final read of %s: acknowledged write %s is not visible", filePaths[f], tok)
			}
		}
	}
	if !r.failed() {
		// ... and in the flushed root
		want := r.snapshotAll()
		if err := r.root.Flush(); err != nil {
			r.opError("final root.flush", err)
		} else {
			r.checkFlushedRoot("final Root.Flush", want)
		}
	}
	r.root.Close()
	acked := 0
	for _, a := range r.acked {
		for _, n := range a {
			acked += n
		}
	}
	return childResult{Done: true, Violation: r.viol, Kind: r.vkind, File: r.vfile, Violations: r.viols, Errors: r.errs, Ops: r.ops.Load(), Acked: acked}
}

// TestChildC20 is the child-process entry point; it does nothing in a normal test run.
func TestChildC20(t *testing.T) {
	casePath, outPath := os.Getenv("C20_CHILD_CASE"), os.Getenv("C20_CHILD_OUT")
	if casePath == "" || outPath == "" {
		t.Skip("child-process helper")
	}
	b, err := os.ReadFile(casePath)
	if err != nil {
		t.Fatal(err)
	}
	var c Case
	if err := json.Unmarshal(b, &c); err != nil {
		t.Fatal(err)
	}
	res := runInChild(c)
	out, _ := json.Marshal(res)
	if err := os.WriteFile(outPath+".tmp", out, 0o644); err != nil {
		t.Fatal(err)
	}
	os.Rename(outPath+".tmp", outPath)
}
