package c20

import (
	"fmt"
	"strings"
	"os"
	"testing"
	"time"

	"pgregory.net/rapid"
)

func TestTmpTiming(t *testing.T) {
	if os.Getenv("C20_TMP_TIMING") == "" {
		t.Skip()
	}
	g := rapid.Custom(gen)
	tot := map[string]time.Duration{}
	cnt := map[string]int{}
	for i := 0; i < 120; i++ {
		c := g.Example(i)
		prof := "generic"
		if c.Follow {
			prof = "readers-follow"
		} else if len(c.Workers) > 0 && isFollower(c.Workers[0]) {
			prof = "readers"
		} else if ownerVsDirFlush(c) {
			prof = "owner?"
		}
		if only := os.Getenv("C20_TMP_ONLY"); only != "" && !strings.HasPrefix(prof, only) {
			continue
		}
		t0 := time.Now()
		o, err := runChild(c, 8*time.Second)
		d := time.Since(t0)
		tot[prof] += d
		cnt[prof]++
		ops := int64(0)
		if o.res != nil {
			ops = o.res.Ops
		}
		fmt.Printf("%-15s %8.2fs ops=%d loops=%d workers=%d procs=%d sched=%v err=%v timedout=%v deadlock=%v acc=%v\n", prof, d.Seconds(), ops, c.Loops, len(c.Workers), c.Procs, c.Sched != nil, err, o.timedOut, o.deadlock, accs(c))
	}
	for k, v := range tot {
		fmt.Printf("PROFILE %-15s n=%d mean=%.2fs\n", k, cnt[k], v.Seconds()/float64(cnt[k]))
	}
}

func accs(c Case) string {
	out := ""
	for _, sc := range c.Workers {
		if isFollower(sc) {
			for _, s := range sc {
				out += fmt.Sprintf("%s*%d,", s.Kind, s.Rep)
			}
			out += "|"
		}
	}
	return out
}
