package c20

import (
	"encoding/json"
	"fmt"
	"os"
	"testing"
	"time"
)

func TestTmpOne(t *testing.T) {
	p := os.Getenv("C20_TMP_ONE")
	if p == "" {
		t.Skip()
	}
	b, _ := os.ReadFile(p)
	var d struct{ Case Case }
	if err := json.Unmarshal(b, &d); err != nil {
		t.Fatal(err)
	}
	t0 := time.Now()
	o, err := runChild(d.Case, 15*time.Second)
	fmt.Printf("took %v err=%v timedout=%v deadlock=%v\n", time.Since(t0), err, o.timedOut, o.deadlock)
	if o.timedOut {
		fmt.Println(workerStacks(o.dump))
	} else if o.res != nil {
		fmt.Printf("ops=%d acked=%d viol=%q errs=%v\n", o.res.Ops, o.res.Acked, o.res.Violation, o.res.Errors)
	}
}
