// Package c41 checks property C41: the filestore accepts a reference only to a file located
// inside its configured root directory (by path components, not string prefix), so every stored
// reference resolves to a path inside the root.
package c41

import (
	"bytes"
	"context"
	"fmt"
	"os"
	"path/filepath"
	"sort"
	"strings"
	"sync"
	"testing"
	"unicode"

	blockstore "github.com/ipfs/boxo/blockstore"
	"github.com/ipfs/boxo/filestore"
	posinfo "github.com/ipfs/boxo/filestore/posinfo"
	dag "github.com/ipfs/boxo/ipld/merkledag"
	blocks "github.com/ipfs/go-block-format"
	cid "github.com/ipfs/go-cid"
	ds "github.com/ipfs/go-datastore"
	dssync "github.com/ipfs/go-datastore/sync"
	"pgregory.net/rapid"
	"verif/kit"
)

func TestMain(m *testing.M) { kit.Main(m) }

// tmpParent prefers a memory-backed directory for the per-case sandboxes (many small file
// operations per case); "" means the default temp directory.
var tmpParent = sync.OnceValue(func() string {
	if st, err := os.Stat("/dev/shm"); err == nil && st.IsDir() {
		if f, err := os.CreateTemp("/dev/shm", "verifprobe"); err == nil {
			f.Close()
			os.Remove(f.Name())
			return "/dev/shm"
		}
	}
	return ""
})

// PutSpec is one candidate reference.
type PutSpec struct {
	// Kind: "base" - parent directory of the root + "/" + Path, textually (not cleaned);
	// "elsewhere" - a second, unrelated temp directory + "/" + Path;
	// "relative" - Path as it is (a relative path; this includes URL texts and URL lookalikes
	// such as "HTTP://h/../../../{R}-x/f", which - joined to the root - collapse to a path
	// outside the root);
	// "caseparent" - like "base", but the root's parent directory (relative to the sandbox base)
	// is spelled with swapped letter case, i.e. a different directory (same as "base" for a
	// root that lies directly in the sandbox base).
	Kind string `json:"kind"`
	// Path is a template: every "{R}" is replaced by the root's name, every "{RC}" by the
	// root's name with swapped letter case (a different name unless it has no cased letters).
	Path string `json:"path"`
}

type Case struct {
	Root      string    `json:"root"`                 // root directory, relative to the sandbox base (e.g. "root", "w/root")
	RootSlash bool      `json:"root_slash,omitempty"` // root handed to NewFileManager with a trailing separator
	Via       string    `json:"via"`                  // put | putmany | fm | fmmany
	Puts      []PutSpec `json:"puts"`
	// Urls: the urlstore is enabled (AllowUrls) while the references are put.
	Urls bool `json:"urls,omitempty"`
	// Life2: the same datastore is used again with another configuration and every accepted
	// reference is read: "" - no second life; otherwise <how>:<config>, how = "reopen" (a new
	// FileManager / Filestore over the datastore, as after a restart with a changed
	// configuration) or "toggle" (the public fields of the same FileManager are changed),
	// config = "files" (AllowFiles only) | "both" | "urls" | "none".
	Life2 string `json:"life2,omitempty"`
}

// ---------------------------------------------------------------------------
// lexical model (own implementation, by path components)

// lexComps returns the components of an absolute slash path after lexical normalisation
// ("" and "." dropped, ".." removes the previous component, ".." at the top stays at the top).
func lexComps(p string) []string {
	var out []string
	for _, c := range strings.Split(p, "/") {
		switch c {
		case "", ".":
		case "..":
			if len(out) > 0 {
				out = out[:len(out)-1]
			}
		default:
			out = append(out, c)
		}
	}
	return out
}

// insideOrEqual: p is absolute and its normalised components start with those of root.
func insideOrEqual(root, p string) bool {
	if !strings.HasPrefix(p, "/") {
		return false
	}
	rc, pc := lexComps(root), lexComps(p)
	if len(pc) < len(rc) {
		return false
	}
	for i := range rc {
		if rc[i] != pc[i] {
			return false
		}
	}
	return true
}

func strictlyInside(root, p string) bool {
	return insideOrEqual(root, p) && len(lexComps(p)) > len(lexComps(root))
}

// mustAccept: acceptance is demanded only for what real callers pass (the adder hands over
// cleaned absolute paths): a clean absolute path strictly inside the root. Unclean spellings of
// inside paths ("/base/./root/f", "root/a/../f", trailing slash) may be accepted or refused; if
// accepted, the stored reference must still resolve to the cleaned path.
func mustAccept(root, p string) bool {
	return strictlyInside(root, p) && p == lexClean(p)
}

func lexClean(p string) string { return "/" + strings.Join(lexComps(p), "/") }

// swapCase swaps the case of every cased letter: a name that differs only by letter case.
func swapCase(s string) string {
	return strings.Map(func(r rune) rune {
		switch {
		case unicode.IsUpper(r):
			return unicode.ToLower(r)
		case unicode.IsLower(r):
			return unicode.ToUpper(r)
		}
		return r
	}, s)
}

// foldInside: outside the root, but inside it when components are compared ignoring case.
func foldInside(root, p string) bool {
	if !strings.HasPrefix(p, "/") || insideOrEqual(root, p) {
		return false
	}
	rc, pc := lexComps(root), lexComps(p)
	if len(pc) < len(rc) {
		return false
	}
	for i := range rc {
		if !strings.EqualFold(rc[i], pc[i]) {
			return false
		}
	}
	return true
}

// isURLText: what the package documents as a urlstore reference (filestore.IsURL: "begins with
// 'http://' or 'https://'", case-sensitive, something must follow). Own implementation.
func isURLText(s string) bool {
	return (strings.HasPrefix(s, "http://") && len(s) > len("http://")) ||
		(strings.HasPrefix(s, "https://") && len(s) > len("https://"))
}

func hasDotDot(p string) bool {
	for _, c := range strings.Split(p, "/") {
		if c == ".." {
			return true
		}
	}
	return false
}

// ---------------------------------------------------------------------------
// sandbox

// buildSandbox creates
//
//	base/<R>/{f, a/f, a/b/f, ..a/f, .../f, ln -> ../<name>-x, lin -> a, lf -> ../<name>-x/f}
//	base/<parent of R>/{<name>-x/f, <name>x/f, <name>.d/f, <name minus last byte>/f, f}
//	base/<parent of R>/<name with swapped letter case>/{f, a/f}
//	base/<parent of R with swapped letter case>/<name>/{f, a/f}        (nested roots)
//	base/other/f, base/f
//
// every regular file holds a distinct text naming its location.
func buildSandbox(base, root string) {
	mk := func(rel string) {
		p := filepath.Join(base, rel)
		if err := os.MkdirAll(filepath.Dir(p), 0o755); err != nil {
			panic(err)
		}
		if err := os.WriteFile(p, []byte("content of file <"+rel+"> in the C41 sandbox, long enough for offsets"), 0o644); err != nil {
			panic(err)
		}
	}
	for _, r := range []string{"f", "a/f", "a/b/f", "..a/f", ".../f"} {
		mk(root + "/" + r)
	}
	parent, name := filepath.Dir(root), filepath.Base(root)
	for _, sib := range []string{name + "-x", name + "x", name + ".d", name[:len(name)-1]} {
		if sib == "" {
			continue
		}
		mk(filepath.Join(parent, sib, "f"))
	}
	if cv := swapCase(name); cv != name {
		mk(filepath.Join(parent, cv, "f"))
		mk(filepath.Join(parent, cv, "a/f"))
	}
	if cp := swapCase(parent); cp != parent {
		mk(filepath.Join(cp, name, "f"))
		mk(filepath.Join(cp, name, "a/f"))
	}
	mk(filepath.Join(parent, "f"))
	mk("other/f")
	mk("f")
	for link, target := range map[string]string{"ln": "../" + name + "-x", "lin": "a", "lf": "../" + name + "-x/f"} {
		if err := os.Symlink(target, filepath.Join(base, root, link)); err != nil {
			panic(err)
		}
	}
}

// ---------------------------------------------------------------------------
// run

const f1Key = "F1"

type putState struct {
	spec     PutSpec
	full     string
	node     *posinfo.FilestoreNode
	data     []byte
	readable bool // the path denotes a readable file (through the OS)
	accepted bool
	f1       bool // accepted although outside, with the string-prefix signature of finding F1
	isURL    bool // the reference text is a URL by the documented rule (not a file reference)
}

func run(c Case) kit.Result {
	ctx := context.Background()
	if c.Root == "" || strings.HasPrefix(c.Root, "/") || hasDotDot(c.Root) {
		return kit.Result{Classes: []string{"harness:bad-root"}}
	}
	base, err := os.MkdirTemp(tmpParent(), "c41base")
	if err != nil {
		panic(err)
	}
	defer os.RemoveAll(base)
	if b, err := filepath.EvalSymlinks(base); err == nil {
		base = b
	}
	elsewhere, err := os.MkdirTemp(tmpParent(), "c41else")
	if err != nil {
		panic(err)
	}
	defer os.RemoveAll(elsewhere)
	buildSandbox(base, c.Root)
	if err := os.WriteFile(filepath.Join(elsewhere, "f"), []byte("content of file <f> in the unrelated directory, long enough for offsets"), 0o644); err != nil {
		panic(err)
	}

	// the case-variant directories must be different directories (case-sensitive file system)
	if ri, err := os.Stat(filepath.Join(base, c.Root, "f")); err == nil {
		for _, v := range []string{filepath.Join(filepath.Dir(c.Root), swapCase(filepath.Base(c.Root))), filepath.Join(swapCase(filepath.Dir(c.Root)), filepath.Base(c.Root))} {
			if vi, err := os.Stat(filepath.Join(base, v, "f")); err == nil && v != filepath.Clean(c.Root) && os.SameFile(ri, vi) {
				return kit.Result{Classes: []string{"harness:case-insensitive-fs"}}
			}
		}
	}

	rootClean := base + "/" + c.Root
	rootGiven := rootClean
	if c.RootSlash {
		rootGiven += "/"
	}
	name := filepath.Base(c.Root)

	mds := dssync.MutexWrap(ds.NewMapDatastore())
	fm := filestore.NewFileManager(mds, rootGiven)
	fm.AllowFiles = true
	fm.AllowUrls = c.Urls
	fs := filestore.NewFilestore(blockstore.NewBlockstore(mds), fm, nil)

	cls := map[string]struct{}{}
	add := func(s string) { cls[s] = struct{}{} }
	nonTrivial := false

	puts := make([]*putState, len(c.Puts))
	for i, ps := range c.Puts {
		st := &putState{spec: ps}
		p := strings.ReplaceAll(ps.Path, "{RC}", swapCase(name))
		p = strings.ReplaceAll(p, "{R}", name)
		rootParent := base
		if d := filepath.Dir(c.Root); d != "." {
			rootParent = base + "/" + d
			if ps.Kind == "caseparent" {
				rootParent = base + "/" + swapCase(d)
			}
		}
		switch ps.Kind {
		case "elsewhere":
			st.full = elsewhere + "/" + p
		case "relative":
			st.full = p
		default:
			st.full = rootParent + "/" + p
		}
		if st.full == "" {
			st.full = "."
		}
		// what a real adder would reference: the bytes the OS delivers for that path, from
		// offset i (distinct blocks for distinct puts even on the same file)
		var data []byte
		if ps.Kind != "relative" {
			if b, err := os.ReadFile(st.full); err == nil && len(b) > i {
				data, st.readable = b[i:], true
			}
		}
		if ps.Kind == "relative" {
			// a relative text (URL, URL lookalike, plain relative path): the bytes of the file
			// that the text denotes if it is joined to the root the way Get joins stored
			// references - were it ever resolved like that, Get would succeed
			if b, err := os.ReadFile(filepath.Join(rootClean, st.full)); err == nil && len(b) > i {
				data = b[i:]
			}
		}
		if data == nil {
			data = []byte(fmt.Sprintf("no readable file behind put %d: %s", i, st.full))
		}
		st.isURL = isURLText(st.full)
		st.data = data
		st.node = &posinfo.FilestoreNode{
			Node:    dag.NewRawNode(data),
			PosInfo: &posinfo.PosInfo{FullPath: st.full, Offset: uint64(i)},
		}
		puts[i] = st

		in := insideOrEqual(rootClean, st.full)
		sharesPrefix := strings.HasPrefix(st.full, rootClean)
		switch {
		case st.isURL:
			add("path:url")
			if !insideOrEqual(rootClean, filepath.Join(rootClean, st.full)) {
				add("path:url-collapsing-outside")
				nonTrivial = true
			}
		case ps.Kind == "relative" && strings.Contains(st.full, ":"):
			add("path:url-lookalike")
			nonTrivial = true
		case ps.Kind == "relative":
			add("path:relative")
		case strictlyInside(rootClean, st.full) && hasDotDot(st.full):
			add("path:inside-via-dotdot")
			nonTrivial = true
		case strictlyInside(rootClean, st.full):
			add("path:inside")
		case in:
			add("path:root-itself")
		case foldInside(rootClean, st.full):
			add("path:outside-case-variant")
			nonTrivial = true
		case sharesPrefix && hasDotDot(st.full):
			add("path:outside-prefix-dotdot")
			nonTrivial = true
		case sharesPrefix:
			add("path:outside-sibling-prefix")
			nonTrivial = true
		case hasDotDot(st.full):
			add("path:outside-dotdot")
			nonTrivial = true
		default:
			add("path:outside-other")
		}
	}

	// judge(accepted) applies the two acceptance clauses to put i
	var f1Err error
	judge := func(i int, perr error) *kit.Result {
		st := puts[i]
		if perr == nil {
			st.accepted = true
			if st.isURL {
				// a urlstore reference, not a file reference: acceptance is not judged here;
				// what is judged is that it is never resolved to a path outside the root
				add("url-accepted")
				return nil
			}
			if !insideOrEqual(rootClean, st.full) {
				e := fmt.Errorf("put %d: reference to %q accepted although it is outside the root %q (lexically %q)", i, st.full, rootGiven, lexClean(st.full))
				if !strings.HasPrefix(st.full, "/") {
					e = fmt.Errorf("put %d: reference to %q accepted with the root %q: it is neither an absolute path inside the root nor a URL (begins with 'http://' or 'https://'); joined to the root it is %q", i, st.full, rootGiven, filepath.Join(rootClean, st.full))
				}
				if strings.HasPrefix(st.full, rootGiven) {
					// finding F1: the path passes a *string* prefix test against the root
					st.f1 = true
					if f1Err == nil {
						f1Err = e
					}
					return nil
				}
				r := kit.Result{Err: e}
				return &r
			}
			return nil
		}
		if mustAccept(rootClean, st.full) {
			r := kit.Fail("put %d: reference to %q, which is inside the root %q, was rejected: %v", i, st.full, rootGiven, perr)
			return &r
		}
		add("rejected")
		return nil
	}

	switch c.Via {
	case "putmany", "fmmany":
		bl := make([]blocks.Block, len(puts))
		nl := make([]*posinfo.FilestoreNode, len(puts))
		for i, st := range puts {
			bl[i], nl[i] = st.node, st.node
		}
		var perr error
		if c.Via == "fmmany" {
			perr = fs.FileManager().PutMany(ctx, nl)
		} else {
			perr = fs.PutMany(ctx, bl)
		}
		if perr == nil {
			for i := range puts {
				if r := judge(i, nil); r != nil {
					return *r
				}
			}
		} else {
			// a failed batch must contain at least one path that may be refused
			all := true
			for _, st := range puts {
				if !mustAccept(rootClean, st.full) {
					all = false
				}
			}
			if all {
				return kit.Fail("PutMany of %d references that are all inside the root %q was rejected: %v", len(puts), rootGiven, perr)
			}
			add("rejected")
		}
	default:
		for i, st := range puts {
			var perr error
			if c.Via == "fm" {
				perr = fs.FileManager().Put(ctx, st.node)
			} else {
				perr = fs.Put(ctx, st.node)
			}
			if r := judge(i, perr); r != nil {
				return *r
			}
		}
	}

	// state invariant: every stored reference, resolved as Get resolves it (root joined with
	// the stored relative path), is inside the root
	byCid := map[string]*putState{}
	for _, st := range puts {
		byCid[cid.NewCidV1(cid.Raw, st.node.Cid().Hash()).KeyString()] = st
	}
	storedPath := map[string]string{}
	next, err := filestore.ListAll(ctx, fs, false)
	if err != nil {
		return kit.Fail("ListAll: %v", err)
	}
	stored := 0
	for {
		lr := next(ctx)
		if lr == nil {
			break
		}
		stored++
		st := byCid[lr.Key.KeyString()]
		if st == nil {
			return kit.Fail("filestore lists reference %s (%q) that was never put", lr.Key, lr.FilePath)
		}
		if st.f1 {
			continue // already recorded under the known finding
		}
		storedPath[lr.Key.KeyString()] = lr.FilePath
		if st.isURL && isURLText(lr.FilePath) {
			// stored as a URL: Get hands it to the urlstore (or refuses), it is not a path
			if !st.accepted {
				return kit.Fail("reference to %q is stored (%q) although its Put was rejected", st.full, lr.FilePath)
			}
			add("stored-url")
			continue
		}
		resolved := filepath.Join(rootGiven, filepath.FromSlash(lr.FilePath))
		if !insideOrEqual(rootClean, resolved) {
			return kit.Fail("stored reference %q (from %q) resolves to %q, outside the root %q", lr.FilePath, st.full, resolved, rootGiven)
		}
		if !st.accepted {
			return kit.Fail("reference to %q is stored (%q) although its Put was rejected", st.full, lr.FilePath)
		}
		if !st.isURL && resolved != lexClean(st.full) {
			return kit.Fail("stored reference %q resolves to %q, but the referenced path was %q (%q)", lr.FilePath, resolved, st.full, lexClean(st.full))
		}
	}
	// accepted, inside, and the lexical path denotes the same bytes the OS delivered: Get serves them
	serve := func(fsx *filestore.Filestore, life string) *kit.Result {
		for i, st := range puts {
			if !st.accepted || st.f1 || !st.readable || !strictlyInside(rootClean, st.full) {
				continue
			}
			lexBytes, err := os.ReadFile(lexClean(st.full))
			if err != nil || len(lexBytes) <= i || !bytes.Equal(lexBytes[i:], st.data) {
				add("symlink-dotdot-divergence") // "ln/.." : lexical and physical resolution differ
				continue
			}
			got, err := fsx.Get(ctx, st.node.Cid())
			if err != nil {
				r := kit.Fail("put %d: reference to %q accepted, but Get%s fails: %v", i, st.full, life, err)
				return &r
			}
			if !bytes.Equal(got.RawData(), st.data) {
				r := kit.Fail("put %d: Get%s returned other bytes than the referenced region of %q", i, life, st.full)
				return &r
			}
			add("served")
		}
		return nil
	}
	if r := serve(fs, ""); r != nil {
		return *r
	}

	// second life of the datastore under another configuration (restart with a changed
	// AllowFiles / AllowUrls, or the public fields toggled): still no stored reference may be
	// resolved to a path outside the root. With the urlstore off the FileManager has no source
	// but the file system, so a Get that then succeeds for a reference stored as a URL has read
	// the file root+reference.
	if c.Life2 != "" {
		how, cfg, _ := strings.Cut(c.Life2, ":")
		files2 := cfg == "files" || cfg == "both"
		urls2 := cfg == "urls" || cfg == "both"
		fs2 := fs
		if how == "toggle" {
			fm.AllowFiles, fm.AllowUrls = files2, urls2
		} else {
			fm2 := filestore.NewFileManager(mds, rootGiven)
			fm2.AllowFiles, fm2.AllowUrls = files2, urls2
			fs2 = filestore.NewFilestore(blockstore.NewBlockstore(mds), fm2, nil)
		}
		add("life2:" + cfg)
		for i, st := range puts {
			sp, ok := storedPath[cid.NewCidV1(cid.Raw, st.node.Cid().Hash()).KeyString()]
			if !ok || !st.accepted || st.f1 || !isURLText(sp) {
				continue
			}
			if urls2 {
				continue // would be fetched over the network
			}
			got, err := fs2.Get(ctx, st.node.Cid())
			if err != nil {
				add("life2:url-refused")
				continue
			}
			resolved := filepath.Join(rootGiven, filepath.FromSlash(sp))
			if !insideOrEqual(rootClean, resolved) {
				return kit.Fail("put %d: with the urlstore disabled (%s) Get serves the stored reference %q (%d bytes) from the file system: it resolves to %q, outside the root %q", i, c.Life2, sp, len(got.RawData()), resolved, rootGiven)
			}
			add("life2:url-read-as-file-inside")
		}
		if files2 {
			if r := serve(fs2, " in the second life ("+c.Life2+")"); r != nil {
				return *r
			}
		}
	}
	if stored > 0 {
		add("stored")
	}
	add("via:" + c.Via)
	if c.RootSlash {
		add("root-trailing-slash")
	}
	if c.Urls {
		add("urlstore-on")
	}
	if f1Err != nil {
		return kit.Result{Err: f1Err, Known: f1Key}
	}
	out := make([]string, 0, len(cls))
	for k := range cls {
		out = append(out, k)
	}
	sort.Strings(out)
	return kit.Result{NonTrivial: nonTrivial, Classes: out}
}

// ---------------------------------------------------------------------------
// generator

var rootPool = []string{"root", "root", "r", "root dir", "ro.ot", "w/root", "w/v/data", "ルート"}

var pathPool = []string{
	// inside
	"{R}/f", "{R}/a/f", "{R}/a/b/f", "{R}/./a/f", "{R}/a/../a/b/f", "{R}//a/f", "{R}/..a/f", "{R}/.../f", "{R}/a/.../x",
	"{R}/ln/f", "{R}/lin/f", "{R}/lf", "{R}/a/b/../../f", "{R}/../{R}/f", "{R}/a/f/", "{R}/nonexistent/f",
	// outside, sharing the string prefix
	"{R}-x/f", "{R}x/f", "{R}.d/f", "{R}-x/a/../f", "{R}/../{R}-x/f", "{R}/../f", "{R}/a/../../f", "{R}/a/b/../../../{R}-x/f",
	"{R}/../other/f", "{R}/..", "{R}/../", "{R}/ln/../../f", "{R}x", "{R}/a/../..",
	// outside: a sibling whose name differs from the root's only by letter case
	"{RC}/f", "{RC}/a/f", "{RC}/a/../f", "{R}/../{RC}/f", "{RC}",
	// outside, no string prefix
	"f", "other/f", "other/../{R}-x/f", "", "../f",
	// the root itself
	"{R}", "{R}/", "{R}/.", "{R}/a/..",
}

var segPool = []string{"a", "a", "b", "f", "f", "..", "..", ".", "", "..a", "...", "ln", "lin", "lf", "{R}", "{R}-x", "other", "{RC}"}
var startPool = []string{"{R}", "{R}", "{R}", "{R}", "{R}-x", "{R}x", "{R}.d", "{RC}", "other", ".", ".."}

// URL texts (by the documented rule) and lookalikes that are NOT URLs by that rule (scheme in
// another letter case, one slash, other scheme, leading blank ...): the latter are relative file
// paths and lie outside the root.
var urlHeads = []string{"http://h/", "https://h/", "http://h:8080/", "http://h/d/", "https://127.0.0.1/"}
var lookalikeHeads = []string{"HTTP://h/", "Https://h/", "hTTp://h/", "HTTPS://h/", "httpS://h/", "Http://h:80/d/",
	"http:/h/", "https:/h/", "http:h/", "ftp://h/", "file://h/", "//h/", " http://h/", "httpx://h/", "http//h/"}
var urlTails = []string{"{R}-x/f", "{R}-x/f", "f", "{R}/f", "{R}/a/f", "other/f", "{RC}/f", "{R}x/f", "nonexistent"}

func genURLish(t *rapid.T) PutSpec {
	var head string
	if rapid.IntRange(0, 1).Draw(t, "isurl") == 0 {
		head = rapid.SampledFrom(urlHeads).Draw(t, "urlhead")
	} else {
		head = rapid.SampledFrom(lookalikeHeads).Draw(t, "lookhead")
	}
	// joined to the root, head + n*"../" climbs out of the root from n = (components of head) + 1
	n := rapid.SampledFrom([]int{0, 2, 3, 3, 4, 4, 5}).Draw(t, "updirs")
	return PutSpec{Kind: "relative", Path: head + strings.Repeat("../", n) + rapid.SampledFrom(urlTails).Draw(t, "urltail")}
}

func genPath(t *rapid.T) PutSpec {
	switch rapid.IntRange(0, 15).Draw(t, "pathclass") {
	case 13, 14, 15:
		return genURLish(t)
	case 12:
		return PutSpec{Kind: "caseparent", Path: rapid.SampledFrom([]string{"{R}/f", "{R}/a/f", "{R}/a/../f", "{RC}/f"}).Draw(t, "casep")}
	case 0:
		return PutSpec{Kind: "elsewhere", Path: rapid.SampledFrom([]string{"f", "a/../f", "{R}/f"}).Draw(t, "else")}
	case 1:
		return PutSpec{Kind: "relative", Path: rapid.SampledFrom([]string{"f", "{R}/f", "./{R}/f", "../f", "a/f"}).Draw(t, "rel")}
	case 2, 3, 4, 5:
		return PutSpec{Kind: "base", Path: rapid.SampledFrom(pathPool).Draw(t, "pool")}
	default:
		segs := []string{rapid.SampledFrom(startPool).Draw(t, "start")}
		n := rapid.IntRange(0, 5).Draw(t, "nseg")
		for i := 0; i < n; i++ {
			segs = append(segs, rapid.SampledFrom(segPool).Draw(t, "seg"))
		}
		p := strings.Join(segs, "/")
		if rapid.IntRange(0, 9).Draw(t, "slash") == 0 {
			p += "/"
		}
		return PutSpec{Kind: "base", Path: p}
	}
}

func gen(t *rapid.T) Case {
	c := Case{
		Root:      rapid.SampledFrom(rootPool).Draw(t, "root"),
		RootSlash: rapid.IntRange(0, 5).Draw(t, "rootslash") == 0,
		Via:       rapid.SampledFrom([]string{"put", "put", "fm", "putmany", "fmmany"}).Draw(t, "via"),
	}
	n := rapid.SampledFrom([]int{1, 1, 1, 2, 3}).Draw(t, "nputs")
	for i := 0; i < n; i++ {
		c.Puts = append(c.Puts, genPath(t))
	}
	c.Urls = rapid.IntRange(0, 9).Draw(t, "urls") < 6
	if rapid.IntRange(0, 9).Draw(t, "life2") < 6 {
		c.Life2 = rapid.SampledFrom([]string{"reopen", "reopen", "toggle"}).Draw(t, "life2how") + ":" +
			rapid.SampledFrom([]string{"files", "files", "files", "both", "urls", "none"}).Draw(t, "life2cfg")
	}
	return c
}

var spec = kit.Spec[Case]{
	Prop: "C41", Name: "main",
	Rule:  "sandbox with a root (8 names, optionally nested / trailing slash), siblings sharing its name as string prefix (<R>-x, <R>x, <R>.d), sibling and parent directories whose names differ only by letter case, nested dirs, dir/file symlinks inside the root; 1-3 candidate paths (pool of 40 templates or random segment sequences with '..', '.', empty segments, symlinks; absolute elsewhere; relative; URL texts and URL lookalikes (scheme in other letter case, one slash, other scheme) followed by 0-5 '../' that - joined to the root - collapse to existing files outside the root) put via Filestore.Put / PutMany / FileManager.Put / FileManager.PutMany with the urlstore on or off; optionally a second life of the datastore (new FileManager or toggled fields) with files-only / both / urls-only / none, reading back every accepted reference that needs no network; containment judged by path components; non-trivial = a path outside the root that shares its string prefix or equals an inside path up to letter case, any path with a '..' component, a URL lookalike, or a URL text collapsing outside the root",
	Quick: 2500, Thorough: 20000,
	Gen: gen, Run: run,
}

func TestProp(t *testing.T) { kit.All(t, spec) }
