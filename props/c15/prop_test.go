package c15

// C15 UnixFS directories behave as name-to-entry maps.
//
// A basic, a pure HAMT or an automatically switching (dynamic) directory is driven through a
// generated history of AddChild (new / replace), RemoveChild (present / missing), Find, the
// three enumeration APIs and reloads from the root node (settings carried over exactly as
// mfs.Directory.setNodeData does). After every step the directory is compared with a plain
// map name -> (cid, size).

import (
	"context"
	"errors"
	"fmt"
	"math/bits"
	"os"
	"sort"
	"testing"
	"time"

	mdag "github.com/ipfs/boxo/ipld/merkledag"
	mdtest "github.com/ipfs/boxo/ipld/merkledag/test"
	uio "github.com/ipfs/boxo/ipld/unixfs/io"
	cid "github.com/ipfs/go-cid"
	ipld "github.com/ipfs/go-ipld-format"
	mh "github.com/multiformats/go-multihash"
	"pgregory.net/rapid"
	"verif/kit"
)

func TestMain(m *testing.M) { kit.Main(m) }

type Config struct {
	Kind      string `json:"kind"`      // basic | hamt | dynamic
	Width     int    `json:"width"`     // HAMT fanout; 0 = library default (256)
	MaxLinks  int    `json:"max_links"` // 0 = unset
	Threshold int    `json:"threshold"` // per-directory HAMTShardingSize; 0 = unset (global 256 KiB)
	SizeMode  int    `json:"size_mode"` // -1 unset (global default), 0 links, 1 block, 2 disabled
	CidV1     bool   `json:"cid_v1"`
	Perm      uint32 `json:"perm"`
	HasMtime  bool   `json:"has_mtime"`
	Sec       int64  `json:"sec"`
	Nsec      int64  `json:"nsec"`
}

type Op struct {
	Kind  string `json:"kind"` // add | remove | find | links | foreach | enum | reload
	Name  string `json:"name,omitempty"`
	Child int    `json:"child,omitempty"` // index into Children
}

type Case struct {
	Cfg      Config          `json:"cfg"`
	Children []kit.ChildSpec `json:"children"`
	Ops      []Op            `json:"ops"`
	// Audit says where the per-step comparison with the model reads from:
	//   "" / "direct": from the directory object under test (enumeration + Find after every edit,
	//                  full comparison on the object right after a reload);
	//   "copy":        the object under test is never read by the audit: after every edit its
	//                  GetNode() is loaded as a SEPARATE directory (from the stored block) and
	//                  that copy is compared (one enumeration API + Find of every stored name);
	//   "sparse":      no per-step audit; only the find/links/foreach/enum/reload operations of
	//                  the history observe, reloads audit a separate copy.
	// Lookups and ForEachLink materialise lazily loaded HAMT children, so auditing the object
	// itself changes which code paths later edits and GetNode() take.
	Audit string `json:"audit,omitempty"`
}

const errMaxLinksText = "BasicDirectory: cannot add child: maxLinks reached"

// ---------------------------------------------------------------------------
// generator

func genConfig(t *rapid.T) Config {
	c := Config{}
	c.Kind = rapid.SampledFrom([]string{"basic", "hamt", "hamt", "dynamic", "dynamic", "dynamic"}).Draw(t, "kind")
	c.Width = rapid.SampledFrom([]int{8, 8, 8, 16, 16, 32, 64, 128, 256, 512, 1024, 0}).Draw(t, "width")
	if rapid.IntRange(0, 2).Draw(t, "ml") != 0 {
		c.MaxLinks = rapid.IntRange(1, 12).Draw(t, "maxlinks")
	}
	switch rapid.IntRange(0, 3).Draw(t, "thr") {
	case 0:
		c.Threshold = 0
	case 1:
		c.Threshold = rapid.IntRange(1, 400).Draw(t, "threshold")
	default:
		c.Threshold = rapid.IntRange(100, 3000).Draw(t, "threshold")
	}
	c.SizeMode = rapid.SampledFrom([]int{-1, 0, 0, 1, 1, 2}).Draw(t, "sizemode")
	c.CidV1 = rapid.Bool().Draw(t, "cidv1")
	if rapid.Bool().Draw(t, "hasperm") {
		c.Perm = rapid.SampledFrom([]uint32{0o755, 0o700, 0o7777, 1}).Draw(t, "perm")
	}
	c.HasMtime = rapid.Bool().Draw(t, "hasmtime")
	if c.HasMtime {
		c.Sec = rapid.SampledFrom([]int64{0, 1700000000, -5, 1 << 33}).Draw(t, "sec")
		c.Nsec = rapid.SampledFrom([]int64{0, 1, 999999999}).Draw(t, "nsec")
	}
	return c
}

func gen(t *rapid.T) Case {
	c := Case{Cfg: genConfig(t)}
	// name pool of this case: whole colliding groups plus other names of the master pool
	groups := kit.CollidingNameGroups()
	var pool []string
	for gi, g := range groups {
		if rapid.IntRange(0, 9).Draw(t, fmt.Sprintf("group%d", gi)) < 6 {
			pool = append(pool, g.Names...)
		}
	}
	master := kit.DirNamePool()
	rest := master[len(kit.CollidingNames()):]
	extra := rapid.SliceOfNDistinct(rapid.IntRange(0, len(rest)-1), 4, 16, rapid.ID[int]).Draw(t, "extra")
	for _, i := range extra {
		pool = append(pool, rest[i])
	}
	nch := rapid.IntRange(2, 6).Draw(t, "nchildren")
	for i := 0; i < nch; i++ {
		c.Children = append(c.Children, kit.ChildSpec{
			Prefix: kit.Prefixes(false).Draw(t, "prefix"),
			Tsize:  rapid.SampledFrom([]uint64{0, 1, 100, 1000, 300000, 1 << 33}).Draw(t, "tsize"),
			Salt:   uint32(i),
		})
	}
	c.Audit = rapid.SampledFrom([]string{"direct", "direct", "direct", "copy", "copy", "copy", "sparse", "sparse"}).Draw(t, "audit")
	nops := rapid.SampledFrom([]int{3, 10, 20, 30, 40, 50, kit.Scale(50, 60)}).Draw(t, "nopsclass") - rapid.IntRange(0, 2).Draw(t, "nopsdelta")
	lg := bits.TrailingZeros(uint(c.Cfg.Width))
	if c.Cfg.Width == 0 {
		lg = 8
	}
	present := map[string]bool{}
	sortedPresent := func() []string {
		var s []string
		for n := range present {
			s = append(s, n)
		}
		sort.Strings(s)
		return s
	}
	// optional fill phase: a run of adds so that large directories are frequent
	fill := rapid.SampledFrom([]int{0, 0, 4, 8, 12, 16, 20, 25, 30}).Draw(t, "fill")
	if fill > nops {
		fill = nops
	}
	for i := 0; i < nops; i++ {
		k := rapid.IntRange(0, 19).Draw(t, "opk")
		if i < fill {
			k = 0
		}
		have := sortedPresent()
		// removal burst directly after a reload: take the stored names that share one slot of the
		// root shard (i.e. live in one sub-shard) and remove all but one (sometimes all) of them
		// back to back, with no lookup or listing in between; often followed by another reload.
		if n := len(c.Ops); i >= fill && n > 0 && c.Ops[n-1].Kind == "reload" && len(have) > 1 && rapid.IntRange(0, 9).Draw(t, "burst") < 6 {
			bySlot := map[uint64][]string{}
			for _, nm := range have {
				sl := kit.HamtHash(nm) >> (64 - uint(lg))
				bySlot[sl] = append(bySlot[sl], nm)
			}
			var slots []uint64
			for sl, g := range bySlot {
				if len(g) > 1 {
					slots = append(slots, sl)
				}
			}
			if len(slots) > 0 {
				sort.Slice(slots, func(a, b int) bool { return slots[a] < slots[b] })
				g := bySlot[rapid.SampledFrom(slots).Draw(t, "bslot")]
				g = rapid.Permutation(g).Draw(t, "border")
				keep := 1
				if rapid.IntRange(0, 5).Draw(t, "ball") == 0 {
					keep = 0
				}
				g = g[:len(g)-keep]
				if len(g) > 8 {
					g = g[:8]
				}
				for _, nm := range g {
					c.Ops = append(c.Ops, Op{Kind: "remove", Name: nm})
					delete(present, nm)
					i++
				}
				if rapid.Bool().Draw(t, "breload") {
					c.Ops = append(c.Ops, Op{Kind: "reload"})
					i++
				}
				i-- // the loop increment accounts for one of the emitted operations
				continue
			}
		}
		switch {
		case k <= 8: // add
			name := rapid.SampledFrom(pool).Draw(t, "name")
			if i < fill {
				// fill phase: prefer a name that is not stored yet
				var absent []string
				for _, n := range pool {
					if !present[n] {
						absent = append(absent, n)
					}
				}
				if len(absent) > 0 {
					name = rapid.SampledFrom(absent).Draw(t, "fname")
				}
			} else if len(have) > 0 && rapid.IntRange(0, 3).Draw(t, "replace") == 0 {
				name = rapid.SampledFrom(have).Draw(t, "rname")
			}
			c.Ops = append(c.Ops, Op{Kind: "add", Name: name, Child: rapid.IntRange(0, nch-1).Draw(t, "child")})
			if !(c.Cfg.Kind == "basic" && c.Cfg.MaxLinks > 0 && !present[name] && len(have) >= c.Cfg.MaxLinks) {
				present[name] = true
			}
		case k <= 13: // remove
			name := rapid.SampledFrom(pool).Draw(t, "name")
			if len(have) > 0 && rapid.IntRange(0, 4).Draw(t, "present") != 0 {
				name = rapid.SampledFrom(have).Draw(t, "pname")
			}
			c.Ops = append(c.Ops, Op{Kind: "remove", Name: name})
			delete(present, name)
		case k <= 15: // find
			name := rapid.SampledFrom(pool).Draw(t, "name")
			if len(have) > 0 && rapid.Bool().Draw(t, "present") {
				name = rapid.SampledFrom(have).Draw(t, "pname")
			}
			c.Ops = append(c.Ops, Op{Kind: "find", Name: name})
		case k <= 17:
			c.Ops = append(c.Ops, Op{Kind: rapid.SampledFrom([]string{"links", "foreach", "enum"}).Draw(t, "enumkind")})
		default:
			c.Ops = append(c.Ops, Op{Kind: "reload"})
		}
	}
	return c
}

// ---------------------------------------------------------------------------
// oracle

type entry struct {
	c    cid.Cid
	size uint64
}

func permsToFileMode(p uint32) os.FileMode {
	m := os.FileMode(p & 0o777)
	if p&0o4000 != 0 {
		m |= os.ModeSetuid
	}
	if p&0o2000 != 0 {
		m |= os.ModeSetgid
	}
	if p&0o1000 != 0 {
		m |= os.ModeSticky
	}
	return m
}

func compare(api string, got []*ipld.Link, model map[string]entry) error {
	seen := map[string]bool{}
	for _, l := range got {
		if l == nil {
			return fmt.Errorf("%s returned a nil link", api)
		}
		e, ok := model[l.Name]
		if !ok {
			return fmt.Errorf("%s lists %q which is not in the directory", api, l.Name)
		}
		if seen[l.Name] {
			return fmt.Errorf("%s lists %q twice", api, l.Name)
		}
		seen[l.Name] = true
		if !l.Cid.Equals(e.c) {
			return fmt.Errorf("%s: entry %q points to %s, want %s", api, l.Name, l.Cid, e.c)
		}
		if l.Size != e.size {
			return fmt.Errorf("%s: entry %q has size %d, want %d", api, l.Name, l.Size, e.size)
		}
	}
	if len(seen) != len(model) {
		var miss []string
		for n := range model {
			if !seen[n] {
				miss = append(miss, n)
			}
		}
		sort.Strings(miss)
		return fmt.Errorf("%s lists %d of %d entries; missing %q", api, len(seen), len(model), miss)
	}
	return nil
}

func enumerate(ctx context.Context, d uio.Directory, api string) ([]*ipld.Link, error) {
	switch api {
	case "links":
		return d.Links(ctx)
	case "foreach":
		var out []*ipld.Link
		err := d.ForEachLink(ctx, func(l *ipld.Link) error {
			cp := *l
			out = append(out, &cp)
			return nil
		})
		return out, err
	default:
		var out []*ipld.Link
		cctx, cancel := context.WithCancel(ctx)
		defer cancel()
		for r := range d.EnumLinksAsync(cctx) {
			if r.Err != nil {
				return out, r.Err
			}
			out = append(out, r.Link)
		}
		return out, nil
	}
}

var enumAPIs = []string{"links", "foreach", "enum"}

func isHAMT(d uio.Directory) bool {
	switch x := d.(type) {
	case *uio.HAMTDirectory:
		return true
	case *uio.DynamicDirectory:
		_, ok := x.Directory.(*uio.HAMTDirectory)
		return ok
	}
	return false
}

func run(c Case) kit.Result {
	cfg := c.Cfg
	if len(c.Children) == 0 || cfg.Perm > 0o7777 || cfg.Nsec < 0 || cfg.Nsec > 999999999 {
		return kit.Result{}
	}
	switch cfg.Width {
	case 0, 8, 16, 32, 64, 128, 256, 512, 1024:
	default:
		return kit.Result{}
	}
	audit := c.Audit
	switch audit {
	case "":
		audit = "direct"
	case "direct", "copy", "sparse":
	default:
		return kit.Result{}
	}
	ctx := context.Background()
	ds := mdtest.Mock()
	type child struct {
		nd   ipld.Node
		size uint64
	}
	var children []child
	for _, cs := range c.Children {
		nd, sz := kit.MakeChild(cs)
		if err := ds.Add(ctx, nd); err != nil {
			return kit.Result{Err: fmt.Errorf("harness: cannot store child: %v", err)}
		}
		children = append(children, child{nd, sz})
	}

	var opts []uio.DirectoryOption
	var mtime time.Time
	if cfg.HasMtime {
		mtime = time.Unix(cfg.Sec, cfg.Nsec)
	}
	if cfg.Perm != 0 || cfg.HasMtime {
		opts = append(opts, uio.WithStat(permsToFileMode(cfg.Perm), mtime))
	}
	if cfg.CidV1 {
		opts = append(opts, uio.WithCidBuilder(cid.V1Builder{Codec: cid.DagProtobuf, MhType: mh.SHA2_256}))
	}
	if cfg.Width != 0 {
		opts = append(opts, uio.WithMaxHAMTFanout(cfg.Width))
	}
	if cfg.SizeMode >= 0 {
		opts = append(opts, uio.WithSizeEstimationMode(uio.SizeEstimationMode(cfg.SizeMode)))
	}
	if cfg.MaxLinks > 0 && cfg.Kind != "hamt" {
		opts = append(opts, uio.WithMaxLinks(cfg.MaxLinks))
	}
	var dir uio.Directory
	var err error
	switch cfg.Kind {
	case "basic":
		dir, err = uio.NewBasicDirectory(ds, opts...)
	case "hamt":
		dir, err = uio.NewHAMTDirectory(ds, 0, opts...)
	case "dynamic":
		dir, err = uio.NewDirectory(ds, opts...)
		if err == nil && cfg.Threshold > 0 {
			dir.SetHAMTShardingSize(cfg.Threshold) // as mfs does: not a DirectoryOption
		}
	default:
		return kit.Result{}
	}
	if err != nil {
		return kit.Fail("constructor (%s): %v", cfg.Kind, err)
	}
	width := cfg.Width
	if width == 0 {
		width = 256
	}

	model := map[string]entry{}
	names := func() []string {
		var s []string
		for n := range model {
			s = append(s, n)
		}
		sort.Strings(s)
		return s
	}
	var (
		collapses, reloads, reloadsHAMT, toHAMT, toBasic, refused, replaces, missRemoves int
		anyEdit, reloadAfterEdit, reloadBetweenEdits                                     bool
		loadedHAMT                                                                       bool // current HAMT object came from NewHAMTDirectoryFromNode
		observed                                                                         bool // the current object was read (Find / enumeration) since it was created or loaded
		unobservedCollapses, copyAudits                                                  int
		maxEntries                                                                       int
	)
	verifyOn := func(d uio.Directory, when, api string) *kit.Result {
		got, err := enumerate(ctx, d, api)
		if err != nil {
			r := kit.Fail("%s: %s: %v", when, api, err)
			return &r
		}
		if err := compare(api, got, model); err != nil {
			r := kit.Fail("%s: %v", when, err)
			return &r
		}
		return nil
	}
	verify := func(when, api string) *kit.Result {
		observed = true
		return verifyOn(dir, when, api)
	}
	findCheckOn := func(d uio.Directory, when, name string) *kit.Result {
		nd, err := d.Find(ctx, name)
		e, ok := model[name]
		if ok {
			if err != nil {
				r := kit.Fail("%s: Find(%q) of a stored name: %v", when, name, err)
				return &r
			}
			if !nd.Cid().Equals(e.c) {
				r := kit.Fail("%s: Find(%q) returned %s, want %s", when, name, nd.Cid(), e.c)
				return &r
			}
		} else if !errors.Is(err, os.ErrNotExist) {
			r := kit.Fail("%s: Find(%q) of a missing name returned err=%v (want os.ErrNotExist)", when, name, err)
			return &r
		}
		return nil
	}
	findCheck := func(when, name string) *kit.Result {
		observed = true
		return findCheckOn(dir, when, name)
	}
	// load builds a new directory object of the case's kind from a root node and carries over
	// the settings that are not persisted in the node (as mfs.Directory.setNodeData does).
	load := func(when string, nd ipld.Node, from uio.Directory) (uio.Directory, *kit.Result) {
		var nw uio.Directory
		var err error
		switch cfg.Kind {
		case "basic":
			pn, ok := nd.(*mdag.ProtoNode)
			if !ok {
				r := kit.Fail("%s: basic directory node is %T", when, nd)
				return nil, &r
			}
			nw = uio.NewBasicDirectoryFromNode(ds, pn.Copy().(*mdag.ProtoNode))
		case "hamt":
			nw, err = uio.NewHAMTDirectoryFromNode(ds, nd)
		default:
			nw, err = uio.NewDirectoryFromNode(ds, nd)
		}
		if err != nil {
			r := kit.Fail("%s: loading the directory from its own root node: %v", when, err)
			return nil, &r
		}
		nw.SetMaxLinks(from.GetMaxLinks())
		nw.SetMaxHAMTFanout(from.GetMaxHAMTFanout())
		nw.SetHAMTShardingSize(from.GetHAMTShardingSize())
		nw.SetSizeEstimationMode(from.GetSizeEstimationMode())
		if isHAMT(nw) != isHAMT(from) {
			r := kit.Fail("%s: directory was HAMT=%v, its reloaded node is HAMT=%v", when, isHAMT(from), isHAMT(nw))
			return nil, &r
		}
		return nw, nil
	}
	// auditCopy compares a SEPARATE directory loaded from the stored block of dir's current
	// root node with the model; the object under test is only asked for GetNode().
	auditCopy := func(when string, apis []string, extra string) *kit.Result {
		nd, err := dir.GetNode()
		if err != nil {
			r := kit.Fail("%s: GetNode: %v", when, err)
			return &r
		}
		if err := ds.Add(ctx, nd); err != nil {
			return &kit.Result{Err: fmt.Errorf("harness: cannot store root: %v", err)}
		}
		stored, err := ds.Get(ctx, nd.Cid())
		if err != nil {
			return &kit.Result{Err: fmt.Errorf("harness: cannot read root back: %v", err)}
		}
		cp, r := load(when+": separate copy loaded from GetNode()", stored, dir)
		if r != nil {
			return r
		}
		copyAudits++
		when += ": separate copy loaded from GetNode()"
		for _, api := range apis {
			if r := verifyOn(cp, when, api); r != nil {
				return r
			}
		}
		for _, n := range names() {
			if r := findCheckOn(cp, when, n); r != nil {
				return r
			}
		}
		if extra != "" {
			if r := findCheckOn(cp, when, extra); r != nil {
				return r
			}
		}
		return nil
	}

	for i, op := range c.Ops {
		when := fmt.Sprintf("op %d %s(%q)", i, op.Kind, op.Name)
		wasHAMT := isHAMT(dir)
		switch op.Kind {
		case "add":
			if op.Name == "" || op.Child < 0 || op.Child >= len(children) {
				return kit.Result{}
			}
			ch := children[op.Child]
			_, had := model[op.Name]
			wantRefuse := cfg.Kind == "basic" && cfg.MaxLinks > 0 && !had && len(model) >= cfg.MaxLinks
			err := dir.AddChild(ctx, op.Name, ch.nd)
			if wantRefuse {
				if err == nil {
					return kit.Fail("%s: basic directory with maxLinks=%d accepted entry #%d", when, cfg.MaxLinks, len(model)+1)
				}
				refused++
				break
			}
			if err != nil {
				newCount := len(model)
				if !had {
					newCount++
				}
				if cfg.Kind == "dynamic" && wasHAMT && loadedHAMT && cfg.MaxLinks > 0 && newCount > cfg.MaxLinks && err.Error() == errMaxLinksText {
					return kit.Result{Err: fmt.Errorf("%s: %v (HAMT reloaded from its node undercounts its entries and attempts a conversion to basic with %d entries > maxLinks %d)", when, err, newCount, cfg.MaxLinks), Known: "hamt-reload-totallinks"}
				}
				return kit.Fail("%s: AddChild: %v", when, err)
			}
			if had {
				replaces++
			}
			model[op.Name] = entry{ch.nd.Cid(), ch.size}
		case "remove":
			if op.Name == "" {
				return kit.Result{}
			}
			_, had := model[op.Name]
			before := 0
			if had && wasHAMT {
				before = kit.HamtShardCount(names(), width)
			}
			err := dir.RemoveChild(ctx, op.Name)
			if had {
				if err != nil {
					newCount := len(model) - 1
					if cfg.Kind == "dynamic" && wasHAMT && loadedHAMT && cfg.MaxLinks > 0 && newCount > cfg.MaxLinks && err.Error() == errMaxLinksText {
						return kit.Result{Err: fmt.Errorf("%s: %v (HAMT reloaded from its node undercounts its entries and attempts a conversion to basic with %d entries > maxLinks %d)", when, err, newCount, cfg.MaxLinks), Known: "hamt-reload-totallinks"}
					}
					return kit.Fail("%s: RemoveChild of a stored name: %v", when, err)
				}
				delete(model, op.Name)
				if wasHAMT && kit.HamtShardCount(names(), width) < before {
					collapses++
					if loadedHAMT && !observed {
						unobservedCollapses++
					}
				}
			} else {
				if !errors.Is(err, os.ErrNotExist) {
					if err != nil && cfg.Kind == "dynamic" && wasHAMT && loadedHAMT && cfg.MaxLinks > 0 && len(model) > cfg.MaxLinks && err.Error() == errMaxLinksText {
						return kit.Result{Err: fmt.Errorf("%s: RemoveChild of a missing name: %v (HAMT reloaded from its node undercounts its entries and attempts a conversion to basic with %d entries > maxLinks %d)", when, err, len(model), cfg.MaxLinks), Known: "hamt-reload-totallinks"}
					}
					return kit.Fail("%s: RemoveChild of a missing name returned err=%v (want os.ErrNotExist)", when, err)
				}
				missRemoves++
			}
		case "find":
			if r := findCheck(when, op.Name); r != nil {
				return *r
			}
			continue
		case "links", "foreach", "enum":
			if r := verify(when, op.Kind); r != nil {
				return *r
			}
			continue
		case "reload":
			nd, err := dir.GetNode()
			if err != nil {
				return kit.Fail("%s: GetNode: %v", when, err)
			}
			if err := ds.Add(ctx, nd); err != nil {
				return kit.Result{Err: fmt.Errorf("harness: cannot store root: %v", err)}
			}
			nw, r := load(when, nd, dir)
			if r != nil {
				return *r
			}
			dir = nw
			observed = false
			reloads++
			loadedHAMT = wasHAMT
			if wasHAMT {
				reloadsHAMT++
			}
			if anyEdit {
				reloadAfterEdit = true
			}
			if audit != "direct" {
				// the new object stays untouched (its children stay unloaded links); a second
				// copy of the same root is compared in full
				if r := auditCopy(when, enumAPIs, ""); r != nil {
					return *r
				}
				continue
			}
			// full comparison right after the reload: all APIs and every stored name
			for _, api := range enumAPIs {
				if r := verify(when, api); r != nil {
					return *r
				}
			}
			for _, n := range names() {
				if r := findCheck(when, n); r != nil {
					return *r
				}
			}
			continue
		default:
			return kit.Result{}
		}
		// after a mutation
		anyEdit = true
		if reloadAfterEdit {
			reloadBetweenEdits = true
		}
		nowHAMT := isHAMT(dir)
		if nowHAMT != wasHAMT {
			loadedHAMT = false
			observed = false
			if nowHAMT {
				toHAMT++
			} else {
				toBasic++
			}
			if cfg.Kind != "dynamic" {
				return kit.Fail("%s: a pure %s directory changed its implementation", when, cfg.Kind)
			}
		}
		if len(model) > maxEntries {
			maxEntries = len(model)
		}
		switch audit {
		case "direct":
			if r := verify(when, enumAPIs[i%3]); r != nil {
				return *r
			}
			if r := findCheck(when, op.Name); r != nil {
				return *r
			}
		case "copy":
			if r := auditCopy(when, enumAPIs[i%3:i%3+1], op.Name); r != nil {
				return *r
			}
		}
	}
	if audit != "direct" {
		// first what the root node says, before the object itself is read in full
		if r := auditCopy("at the end", enumAPIs, "never-added-name"); r != nil {
			return *r
		}
	}
	// final full comparison
	for _, api := range enumAPIs {
		if r := verify("at the end", api); r != nil {
			return *r
		}
	}
	for _, n := range names() {
		if r := findCheck("at the end", n); r != nil {
			return *r
		}
	}
	if r := findCheck("at the end", "never-added-name"); r != nil {
		return *r
	}
	// the root node must list the same entries when loaded afresh
	nd, err := dir.GetNode()
	if err != nil {
		return kit.Fail("final GetNode: %v", err)
	}
	if err := ds.Add(ctx, nd); err != nil {
		return kit.Result{Err: fmt.Errorf("harness: cannot store root: %v", err)}
	}
	fresh, err := uio.NewDirectoryFromNode(ds, nd)
	if err != nil {
		return kit.Fail("final NewDirectoryFromNode: %v", err)
	}
	got, err := fresh.Links(ctx)
	if err != nil {
		return kit.Fail("final reload: Links: %v", err)
	}
	if err := compare("Links of the reloaded root", got, model); err != nil {
		return kit.Fail("final reload: %v", err)
	}
	for _, n := range names() {
		fnd, err := fresh.Find(ctx, n)
		if err != nil || !fnd.Cid().Equals(model[n].c) {
			return kit.Fail("final reload: Find(%q): node=%v err=%v", n, fnd, err)
		}
	}

	cls := []string{"kind:" + cfg.Kind, fmt.Sprintf("sizemode:%d", cfg.SizeMode)}
	if cfg.Kind != "basic" {
		cls = append(cls, fmt.Sprintf("width:%d", width))
	}
	cls = append(cls, "audit:"+audit)
	if collapses > 0 {
		cls = append(cls, "shard-collapse")
	}
	if unobservedCollapses > 0 {
		cls = append(cls, "shard-collapse-in-unread-reloaded-hamt")
	}
	if copyAudits > 0 {
		cls = append(cls, "audited-separate-copy")
	}
	if reloads > 0 {
		cls = append(cls, "reload")
	}
	if reloadsHAMT > 0 {
		cls = append(cls, "reload-of-hamt")
	}
	if toHAMT > 0 {
		cls = append(cls, "converted:basic->hamt")
	}
	if toBasic > 0 {
		cls = append(cls, "converted:hamt->basic")
	}
	if refused > 0 {
		cls = append(cls, "maxlinks-refusal")
	}
	if replaces > 0 {
		cls = append(cls, "replace")
	}
	if missRemoves > 0 {
		cls = append(cls, "remove-missing")
	}
	switch {
	case maxEntries >= 20:
		cls = append(cls, "entries>=20")
	case maxEntries >= 8:
		cls = append(cls, "entries:8-19")
	default:
		cls = append(cls, "entries<8")
	}
	return kit.Result{NonTrivial: collapses > 0 || reloadBetweenEdits, Classes: cls}
}

var spec = kit.Spec[Case]{
	Prop: "C15", Name: "main",
	Rule:  "kind {basic, pure HAMT, dynamic} x fanout {8..1024, default} x maxLinks x per-directory threshold x estimation mode x CID builder x stat; <=50 (thorough 60) ops over a per-case pool of hash-prefix-colliding (9-32 common murmur3 bits), unicode, hex-like, whitespace and long (<=300 B) names: AddChild new/replace, RemoveChild present/missing, Find, Links, ForEachLink, EnumLinksAsync, reload with MFS-style settings carry-over, removal bursts that empty one sub-shard down to one (or zero) entries directly after a reload; map model compared after every mutation, all APIs after every reload and at the end; audit mode {direct: read the object under test; copy: read only a separate directory loaded from the stored block of GetNode() after every edit, the object itself stays unread so its lazily loaded HAMT children stay links; sparse: only the history's own lookups/listings/reloads observe}; non-trivial = a removal from a HAMT collapsed a sub-shard (model shard count decreased) or a reload happened between edits",
	Quick: 1500, Thorough: 8000,
	Gen: gen, Run: run,
	Sample: func(c Case) any {
		ops := c.Ops
		if len(ops) > 12 {
			ops = ops[:12]
		}
		return map[string]any{"cfg": c.Cfg, "n_ops": len(c.Ops), "first_ops": ops}
	},
}

func TestProp(t *testing.T) { kit.All(t, spec) }
