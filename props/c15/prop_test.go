package c15

// C15 UnixFS directories behave as name-to-entry maps.
//
// A basic, a pure HAMT or an automatically switching (dynamic) directory is driven through a
// generated history of AddChild (new / replace), RemoveChild (present / missing), Find, the
// three enumeration APIs and reloads from the root node (settings carried over exactly as
// mfs.Directory.setNodeData does). After every step the directory is compared with a plain
// map name -> (cid, size).

import (
	"context"
	"errors"
	"fmt"
	"os"
	"sort"
	"testing"
	"time"

	mdag "github.com/ipfs/boxo/ipld/merkledag"
	mdtest "github.com/ipfs/boxo/ipld/merkledag/test"
	uio "github.com/ipfs/boxo/ipld/unixfs/io"
	cid "github.com/ipfs/go-cid"
	ipld "github.com/ipfs/go-ipld-format"
	mh "github.com/multiformats/go-multihash"
	"pgregory.net/rapid"
	"verif/kit"
)

func TestMain(m *testing.M) { kit.Main(m) }

type Config struct {
	Kind      string `json:"kind"`      // basic | hamt | dynamic
	Width     int    `json:"width"`     // HAMT fanout; 0 = library default (256)
	MaxLinks  int    `json:"max_links"` // 0 = unset
	Threshold int    `json:"threshold"` // per-directory HAMTShardingSize; 0 = unset (global 256 KiB)
	SizeMode  int    `json:"size_mode"` // -1 unset (global default), 0 links, 1 block, 2 disabled
	CidV1     bool   `json:"cid_v1"`
	Perm      uint32 `json:"perm"`
	HasMtime  bool   `json:"has_mtime"`
	Sec       int64  `json:"sec"`
	Nsec      int64  `json:"nsec"`
}

type Op struct {
	Kind  string `json:"kind"` // add | remove | find | links | foreach | enum | reload
	Name  string `json:"name,omitempty"`
	Child int    `json:"child,omitempty"` // index into Children
}

type Case struct {
	Cfg      Config          `json:"cfg"`
	Children []kit.ChildSpec `json:"children"`
	Ops      []Op            `json:"ops"`
}

const errMaxLinksText = "BasicDirectory: cannot add child: maxLinks reached"

// ---------------------------------------------------------------------------
// generator

func genConfig(t *rapid.T) Config {
	c := Config{}
	c.Kind = rapid.SampledFrom([]string{"basic", "hamt", "hamt", "dynamic", "dynamic", "dynamic"}).Draw(t, "kind")
	c.Width = rapid.SampledFrom([]int{8, 8, 8, 16, 16, 32, 64, 128, 256, 512, 1024, 0}).Draw(t, "width")
	if rapid.IntRange(0, 2).Draw(t, "ml") != 0 {
		c.MaxLinks = rapid.IntRange(1, 12).Draw(t, "maxlinks")
	}
	switch rapid.IntRange(0, 3).Draw(t, "thr") {
	case 0:
		c.Threshold = 0
	case 1:
		c.Threshold = rapid.IntRange(1, 400).Draw(t, "threshold")
	default:
		c.Threshold = rapid.IntRange(100, 3000).Draw(t, "threshold")
	}
	c.SizeMode = rapid.SampledFrom([]int{-1, 0, 0, 1, 1, 2}).Draw(t, "sizemode")
	c.CidV1 = rapid.Bool().Draw(t, "cidv1")
	if rapid.Bool().Draw(t, "hasperm") {
		c.Perm = rapid.SampledFrom([]uint32{0o755, 0o700, 0o7777, 1}).Draw(t, "perm")
	}
	c.HasMtime = rapid.Bool().Draw(t, "hasmtime")
	if c.HasMtime {
		c.Sec = rapid.SampledFrom([]int64{0, 1700000000, -5, 1 << 33}).Draw(t, "sec")
		c.Nsec = rapid.SampledFrom([]int64{0, 1, 999999999}).Draw(t, "nsec")
	}
	return c
}

func gen(t *rapid.T) Case {
	c := Case{Cfg: genConfig(t)}
	// name pool of this case: whole colliding groups plus other names of the master pool
	groups := kit.CollidingNameGroups()
	var pool []string
	for gi, g := range groups {
		if rapid.IntRange(0, 9).Draw(t, fmt.Sprintf("group%d", gi)) < 6 {
			pool = append(pool, g.Names...)
		}
	}
	master := kit.DirNamePool()
	rest := master[len(kit.CollidingNames()):]
	extra := rapid.SliceOfNDistinct(rapid.IntRange(0, len(rest)-1), 4, 16, rapid.ID[int]).Draw(t, "extra")
	for _, i := range extra {
		pool = append(pool, rest[i])
	}
	nch := rapid.IntRange(2, 6).Draw(t, "nchildren")
	for i := 0; i < nch; i++ {
		c.Children = append(c.Children, kit.ChildSpec{
			Prefix: kit.Prefixes(false).Draw(t, "prefix"),
			Tsize:  rapid.SampledFrom([]uint64{0, 1, 100, 1000, 300000, 1 << 33}).Draw(t, "tsize"),
			Salt:   uint32(i),
		})
	}
	nops := rapid.SampledFrom([]int{3, 10, 20, 30, 40, 50, kit.Scale(50, 60)}).Draw(t, "nopsclass") - rapid.IntRange(0, 2).Draw(t, "nopsdelta")
	present := map[string]bool{}
	sortedPresent := func() []string {
		var s []string
		for n := range present {
			s = append(s, n)
		}
		sort.Strings(s)
		return s
	}
	// optional fill phase: a run of adds so that large directories are frequent
	fill := rapid.SampledFrom([]int{0, 0, 4, 8, 12, 16, 20, 25, 30}).Draw(t, "fill")
	if fill > nops {
		fill = nops
	}
	for i := 0; i < nops; i++ {
		k := rapid.IntRange(0, 19).Draw(t, "opk")
		if i < fill {
			k = 0
		}
		have := sortedPresent()
		switch {
		case k <= 8: // add
			name := rapid.SampledFrom(pool).Draw(t, "name")
			if i < fill {
				// fill phase: prefer a name that is not stored yet
				var absent []string
				for _, n := range pool {
					if !present[n] {
						absent = append(absent, n)
					}
				}
				if len(absent) > 0 {
					name = rapid.SampledFrom(absent).Draw(t, "fname")
				}
			} else if len(have) > 0 && rapid.IntRange(0, 3).Draw(t, "replace") == 0 {
				name = rapid.SampledFrom(have).Draw(t, "rname")
			}
			c.Ops = append(c.Ops, Op{Kind: "add", Name: name, Child: rapid.IntRange(0, nch-1).Draw(t, "child")})
			if !(c.Cfg.Kind == "basic" && c.Cfg.MaxLinks > 0 && !present[name] && len(have) >= c.Cfg.MaxLinks) {
				present[name] = true
			}
		case k <= 13: // remove
			name := rapid.SampledFrom(pool).Draw(t, "name")
			if len(have) > 0 && rapid.IntRange(0, 4).Draw(t, "present") != 0 {
				name = rapid.SampledFrom(have).Draw(t, "pname")
			}
			c.Ops = append(c.Ops, Op{Kind: "remove", Name: name})
			delete(present, name)
		case k <= 15: // find
			name := rapid.SampledFrom(pool).Draw(t, "name")
			if len(have) > 0 && rapid.Bool().Draw(t, "present") {
				name = rapid.SampledFrom(have).Draw(t, "pname")
			}
			c.Ops = append(c.Ops, Op{Kind: "find", Name: name})
		case k <= 17:
			c.Ops = append(c.Ops, Op{Kind: rapid.SampledFrom([]string{"links", "foreach", "enum"}).Draw(t, "enumkind")})
		default:
			c.Ops = append(c.Ops, Op{Kind: "reload"})
		}
	}
	return c
}

// ---------------------------------------------------------------------------
// oracle

type entry struct {
	c    cid.Cid
	size uint64
}

func permsToFileMode(p uint32) os.FileMode {
	m := os.FileMode(p & 0o777)
	if p&0o4000 != 0 {
		m |= os.ModeSetuid
	}
	if p&0o2000 != 0 {
		m |= os.ModeSetgid
	}
	if p&0o1000 != 0 {
		m |= os.ModeSticky
	}
	return m
}

func compare(api string, got []*ipld.Link, model map[string]entry) error {
	seen := map[string]bool{}
	for _, l := range got {
		if l == nil {
			return fmt.Errorf("%s returned a nil link", api)
		}
		e, ok := model[l.Name]
		if !ok {
			return fmt.Errorf("%s lists %q which is not in the directory", api, l.Name)
		}
		if seen[l.Name] {
			return fmt.Errorf("%s lists %q twice", api, l.Name)
		}
		seen[l.Name] = true
		if !l.Cid.Equals(e.c) {
			return fmt.Errorf("%s: entry %q points to %s, want %s", api, l.Name, l.Cid, e.c)
		}
		if l.Size != e.size {
			return fmt.Errorf("%s: entry %q has size %d, want %d", api, l.Name, l.Size, e.size)
		}
	}
	if len(seen) != len(model) {
		var miss []string
		for n := range model {
			if !seen[n] {
				miss = append(miss, n)
			}
		}
		sort.Strings(miss)
		return fmt.Errorf("%s lists %d of %d entries; missing %q", api, len(seen), len(model), miss)
	}
	return nil
}

func enumerate(ctx context.Context, d uio.Directory, api string) ([]*ipld.Link, error) {
	switch api {
	case "links":
		return d.Links(ctx)
	case "foreach":
		var out []*ipld.Link
		err := d.ForEachLink(ctx, func(l *ipld.Link) error {
			cp := *l
			out = append(out, &cp)
			return nil
		})
		return out, err
	default:
		var out []*ipld.Link
		cctx, cancel := context.WithCancel(ctx)
		defer cancel()
		for r := range d.EnumLinksAsync(cctx) {
			if r.Err != nil {
				return out, r.Err
			}
			out = append(out, r.Link)
		}
		return out, nil
	}
}

var enumAPIs = []string{"links", "foreach", "enum"}

func isHAMT(d uio.Directory) bool {
	switch x := d.(type) {
	case *uio.HAMTDirectory:
		return true
	case *uio.DynamicDirectory:
		_, ok := x.Directory.(*uio.HAMTDirectory)
		return ok
	}
	return false
}

func run(c Case) kit.Result {
	cfg := c.Cfg
	if len(c.Children) == 0 || cfg.Perm > 0o7777 || cfg.Nsec < 0 || cfg.Nsec > 999999999 {
		return kit.Result{}
	}
	switch cfg.Width {
	case 0, 8, 16, 32, 64, 128, 256, 512, 1024:
	default:
		return kit.Result{}
	}
	ctx := context.Background()
	ds := mdtest.Mock()
	type child struct {
		nd   ipld.Node
		size uint64
	}
	var children []child
	for _, cs := range c.Children {
		nd, sz := kit.MakeChild(cs)
		if err := ds.Add(ctx, nd); err != nil {
			return kit.Result{Err: fmt.Errorf("harness: cannot store child: %v", err)}
		}
		children = append(children, child{nd, sz})
	}

	var opts []uio.DirectoryOption
	var mtime time.Time
	if cfg.HasMtime {
		mtime = time.Unix(cfg.Sec, cfg.Nsec)
	}
	if cfg.Perm != 0 || cfg.HasMtime {
		opts = append(opts, uio.WithStat(permsToFileMode(cfg.Perm), mtime))
	}
	if cfg.CidV1 {
		opts = append(opts, uio.WithCidBuilder(cid.V1Builder{Codec: cid.DagProtobuf, MhType: mh.SHA2_256}))
	}
	if cfg.Width != 0 {
		opts = append(opts, uio.WithMaxHAMTFanout(cfg.Width))
	}
	if cfg.SizeMode >= 0 {
		opts = append(opts, uio.WithSizeEstimationMode(uio.SizeEstimationMode(cfg.SizeMode)))
	}
	if cfg.MaxLinks > 0 && cfg.Kind != "hamt" {
		opts = append(opts, uio.WithMaxLinks(cfg.MaxLinks))
	}
	var dir uio.Directory
	var err error
	switch cfg.Kind {
	case "basic":
		dir, err = uio.NewBasicDirectory(ds, opts...)
	case "hamt":
		dir, err = uio.NewHAMTDirectory(ds, 0, opts...)
	case "dynamic":
		dir, err = uio.NewDirectory(ds, opts...)
		if err == nil && cfg.Threshold > 0 {
			dir.SetHAMTShardingSize(cfg.Threshold) // as mfs does: not a DirectoryOption
		}
	default:
		return kit.Result{}
	}
	if err != nil {
		return kit.Fail("constructor (%s): %v", cfg.Kind, err)
	}
	width := cfg.Width
	if width == 0 {
		width = 256
	}

	model := map[string]entry{}
	names := func() []string {
		var s []string
		for n := range model {
			s = append(s, n)
		}
		sort.Strings(s)
		return s
	}
	var (
		collapses, reloads, reloadsHAMT, toHAMT, toBasic, refused, replaces, missRemoves int
		anyEdit, reloadAfterEdit, reloadBetweenEdits                                     bool
		loadedHAMT                                                                       bool // current HAMT object came from NewHAMTDirectoryFromNode
		maxEntries                                                                       int
	)
	verify := func(when, api string) *kit.Result {
		got, err := enumerate(ctx, dir, api)
		if err != nil {
			r := kit.Fail("%s: %s: %v", when, api, err)
			return &r
		}
		if err := compare(api, got, model); err != nil {
			r := kit.Fail("%s: %v", when, err)
			return &r
		}
		return nil
	}
	findCheck := func(when, name string) *kit.Result {
		nd, err := dir.Find(ctx, name)
		e, ok := model[name]
		if ok {
			if err != nil {
				r := kit.Fail("%s: Find(%q) of a stored name: %v", when, name, err)
				return &r
			}
			if !nd.Cid().Equals(e.c) {
				r := kit.Fail("%s: Find(%q) returned %s, want %s", when, name, nd.Cid(), e.c)
				return &r
			}
		} else if !errors.Is(err, os.ErrNotExist) {
			r := kit.Fail("%s: Find(%q) of a missing name returned err=%v (want os.ErrNotExist)", when, name, err)
			return &r
		}
		return nil
	}

	for i, op := range c.Ops {
		when := fmt.Sprintf("op %d %s(%q)", i, op.Kind, op.Name)
		wasHAMT := isHAMT(dir)
		switch op.Kind {
		case "add":
			if op.Name == "" || op.Child < 0 || op.Child >= len(children) {
				return kit.Result{}
			}
			ch := children[op.Child]
			_, had := model[op.Name]
			wantRefuse := cfg.Kind == "basic" && cfg.MaxLinks > 0 && !had && len(model) >= cfg.MaxLinks
			err := dir.AddChild(ctx, op.Name, ch.nd)
			if wantRefuse {
				if err == nil {
					return kit.Fail("%s: basic directory with maxLinks=%d accepted entry #%d", when, cfg.MaxLinks, len(model)+1)
				}
				refused++
				break
			}
			if err != nil {
				newCount := len(model)
				if !had {
					newCount++
				}
				if cfg.Kind == "dynamic" && wasHAMT && loadedHAMT && cfg.MaxLinks > 0 && newCount > cfg.MaxLinks && err.Error() == errMaxLinksText {
					return kit.Result{Err: fmt.Errorf("%s: %v (HAMT reloaded from its node undercounts its entries and attempts a conversion to basic with %d entries > maxLinks %d)", when, err, newCount, cfg.MaxLinks), Known: "hamt-reload-totallinks"}
				}
				return kit.Fail("%s: AddChild: %v", when, err)
			}
			if had {
				replaces++
			}
			model[op.Name] = entry{ch.nd.Cid(), ch.size}
		case "remove":
			if op.Name == "" {
				return kit.Result{}
			}
			_, had := model[op.Name]
			before := 0
			if had && wasHAMT {
				before = kit.HamtShardCount(names(), width)
			}
			err := dir.RemoveChild(ctx, op.Name)
			if had {
				if err != nil {
					newCount := len(model) - 1
					if cfg.Kind == "dynamic" && wasHAMT && loadedHAMT && cfg.MaxLinks > 0 && newCount > cfg.MaxLinks && err.Error() == errMaxLinksText {
						return kit.Result{Err: fmt.Errorf("%s: %v (HAMT reloaded from its node undercounts its entries and attempts a conversion to basic with %d entries > maxLinks %d)", when, err, newCount, cfg.MaxLinks), Known: "hamt-reload-totallinks"}
					}
					return kit.Fail("%s: RemoveChild of a stored name: %v", when, err)
				}
				delete(model, op.Name)
				if wasHAMT && kit.HamtShardCount(names(), width) < before {
					collapses++
				}
			} else {
				if !errors.Is(err, os.ErrNotExist) {
					if err != nil && cfg.Kind == "dynamic" && wasHAMT && loadedHAMT && cfg.MaxLinks > 0 && len(model) > cfg.MaxLinks && err.Error() == errMaxLinksText {
						return kit.Result{Err: fmt.Errorf("%s: RemoveChild of a missing name: %v (HAMT reloaded from its node undercounts its entries and attempts a conversion to basic with %d entries > maxLinks %d)", when, err, len(model), cfg.MaxLinks), Known: "hamt-reload-totallinks"}
					}
					return kit.Fail("%s: RemoveChild of a missing name returned err=%v (want os.ErrNotExist)", when, err)
				}
				missRemoves++
			}
		case "find":
			if r := findCheck(when, op.Name); r != nil {
				return *r
			}
			continue
		case "links", "foreach", "enum":
			if r := verify(when, op.Kind); r != nil {
				return *r
			}
			continue
		case "reload":
			nd, err := dir.GetNode()
			if err != nil {
				return kit.Fail("%s: GetNode: %v", when, err)
			}
			if err := ds.Add(ctx, nd); err != nil {
				return kit.Result{Err: fmt.Errorf("harness: cannot store root: %v", err)}
			}
			var nw uio.Directory
			switch cfg.Kind {
			case "basic":
				pn, ok := nd.(*mdag.ProtoNode)
				if !ok {
					return kit.Fail("%s: basic directory node is %T", when, nd)
				}
				nw = uio.NewBasicDirectoryFromNode(ds, pn.Copy().(*mdag.ProtoNode))
			case "hamt":
				nw, err = uio.NewHAMTDirectoryFromNode(ds, nd)
			default:
				nw, err = uio.NewDirectoryFromNode(ds, nd)
			}
			if err != nil {
				return kit.Fail("%s: loading the directory from its own root node: %v", when, err)
			}
			// carry over the settings that are not persisted in the node (mfs.Directory.setNodeData)
			nw.SetMaxLinks(dir.GetMaxLinks())
			nw.SetMaxHAMTFanout(dir.GetMaxHAMTFanout())
			nw.SetHAMTShardingSize(dir.GetHAMTShardingSize())
			nw.SetSizeEstimationMode(dir.GetSizeEstimationMode())
			if isHAMT(nw) != wasHAMT {
				return kit.Fail("%s: directory was HAMT=%v, its reloaded node is HAMT=%v", when, wasHAMT, isHAMT(nw))
			}
			dir = nw
			reloads++
			loadedHAMT = wasHAMT
			if wasHAMT {
				reloadsHAMT++
			}
			if anyEdit {
				reloadAfterEdit = true
			}
			// full comparison right after the reload: all APIs and every stored name
			for _, api := range enumAPIs {
				if r := verify(when, api); r != nil {
					return *r
				}
			}
			for _, n := range names() {
				if r := findCheck(when, n); r != nil {
					return *r
				}
			}
			continue
		default:
			return kit.Result{}
		}
		// after a mutation
		anyEdit = true
		if reloadAfterEdit {
			reloadBetweenEdits = true
		}
		nowHAMT := isHAMT(dir)
		if nowHAMT != wasHAMT {
			loadedHAMT = false
			if nowHAMT {
				toHAMT++
			} else {
				toBasic++
			}
			if cfg.Kind != "dynamic" {
				return kit.Fail("%s: a pure %s directory changed its implementation", when, cfg.Kind)
			}
		}
		if len(model) > maxEntries {
			maxEntries = len(model)
		}
		if r := verify(when, enumAPIs[i%3]); r != nil {
			return *r
		}
		if r := findCheck(when, op.Name); r != nil {
			return *r
		}
	}
	// final full comparison
	for _, api := range enumAPIs {
		if r := verify("at the end", api); r != nil {
			return *r
		}
	}
	for _, n := range names() {
		if r := findCheck("at the end", n); r != nil {
			return *r
		}
	}
	if r := findCheck("at the end", "never-added-name"); r != nil {
		return *r
	}
	// the root node must list the same entries when loaded afresh
	nd, err := dir.GetNode()
	if err != nil {
		return kit.Fail("final GetNode: %v", err)
	}
	if err := ds.Add(ctx, nd); err != nil {
		return kit.Result{Err: fmt.Errorf("harness: cannot store root: %v", err)}
	}
	fresh, err := uio.NewDirectoryFromNode(ds, nd)
	if err != nil {
		return kit.Fail("final NewDirectoryFromNode: %v", err)
	}
	got, err := fresh.Links(ctx)
	if err != nil {
		return kit.Fail("final reload: Links: %v", err)
	}
	if err := compare("Links of the reloaded root", got, model); err != nil {
		return kit.Fail("final reload: %v", err)
	}
	for _, n := range names() {
		fnd, err := fresh.Find(ctx, n)
		if err != nil || !fnd.Cid().Equals(model[n].c) {
			return kit.Fail("final reload: Find(%q): node=%v err=%v", n, fnd, err)
		}
	}

	cls := []string{"kind:" + cfg.Kind, fmt.Sprintf("sizemode:%d", cfg.SizeMode)}
	if cfg.Kind != "basic" {
		cls = append(cls, fmt.Sprintf("width:%d", width))
	}
	if collapses > 0 {
		cls = append(cls, "shard-collapse")
	}
	if reloads > 0 {
		cls = append(cls, "reload")
	}
	if reloadsHAMT > 0 {
		cls = append(cls, "reload-of-hamt")
	}
	if toHAMT > 0 {
		cls = append(cls, "converted:basic->hamt")
	}
	if toBasic > 0 {
		cls = append(cls, "converted:hamt->basic")
	}
	if refused > 0 {
		cls = append(cls, "maxlinks-refusal")
	}
	if replaces > 0 {
		cls = append(cls, "replace")
	}
	if missRemoves > 0 {
		cls = append(cls, "remove-missing")
	}
	switch {
	case maxEntries >= 20:
		cls = append(cls, "entries>=20")
	case maxEntries >= 8:
		cls = append(cls, "entries:8-19")
	default:
		cls = append(cls, "entries<8")
	}
	return kit.Result{NonTrivial: collapses > 0 || reloadBetweenEdits, Classes: cls}
}

var spec = kit.Spec[Case]{
	Prop: "C15", Name: "main",
	Rule:  "kind {basic, pure HAMT, dynamic} x fanout {8..1024, default} x maxLinks x per-directory threshold x estimation mode x CID builder x stat; <=50 (thorough 60) ops over a per-case pool of hash-prefix-colliding (9-32 common murmur3 bits), unicode, hex-like, whitespace and long (<=300 B) names: AddChild new/replace, RemoveChild present/missing, Find, Links, ForEachLink, EnumLinksAsync, reload with MFS-style settings carry-over; map model compared after every mutation, all APIs after every reload and at the end; non-trivial = a removal from a HAMT collapsed a sub-shard (model shard count decreased) or a reload happened between edits",
	Quick: 1500, Thorough: 8000,
	Gen: gen, Run: run,
	Sample: func(c Case) any {
		ops := c.Ops
		if len(ops) > 12 {
			ops = ops[:12]
		}
		return map[string]any{"cfg": c.Cfg, "n_ops": len(c.Ops), "first_ops": ops}
	},
}

func TestProp(t *testing.T) { kit.All(t, spec) }
