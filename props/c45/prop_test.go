// Package c45 checks property C45: the autoconf cache survives interrupted writes.
//
// Technique (fault enumeration): a real autoconf.Client runs inside a testing/synctest
// bubble (virtual clock => distinct second-resolution cache file names, no sleeping)
// against an in-memory http.RoundTripper. After 0..3 successful refreshes one more
// refresh is executed while the cache directory is watched with inotify
// (golang.org/x/sys/unix). The ordered inotify event stream (CREATE / MODIFY /
// CLOSE_WRITE / MOVED_FROM / MOVED_TO / DELETE) together with a before/after
// snapshot of the directory gives the *observed* write protocol of that refresh:
// which files were written in place, which were renamed into place, which were
// removed, and in which order. Nothing about the protocol is assumed from the code.
//
// Every crash state of that protocol is then materialised in a second directory:
//   - the state before the first write,
//   - for a file written in place: every byte truncation 0..len of its new content
//     (files written later still in their old state),
//   - for a file renamed into place: the temp file's truncations, then the atomic
//     rename (destination absent/old, then complete),
//   - every removal.
//
// and a fresh client's GetCached() is compared with the oracle of the property.
// The fallback is accepted only while no valid cached version exists and none
// existed in an earlier state of the same update (including the state before it):
// an update that unlinks the only valid version before the new one is readable
// loses a validated configuration exactly in the window the property is about.
package c45

import (
	"bytes"
	"context"
	"encoding/json"
	"fmt"
	"hash/fnv"
	"io"
	"net/http"
	"os"
	"path/filepath"
	"reflect"
	"sort"
	"strings"
	"testing"
	"testing/synctest"
	"time"

	"github.com/ipfs/boxo/autoconf"
	"golang.org/x/sys/unix"
	"pgregory.net/rapid"
	"verif/kit"
)

func TestMain(m *testing.M) { kit.Main(m) }

const findingF18 = "F18-torn-newest-file"

// ---------------------------------------------------------------------------
// case

// CfgSpec describes one autoconf.json payload; the body is a pure function of it.
type CfgSpec struct {
	Version  int64  `json:"version"`
	TTL      int    `json:"ttl"`
	NBoot    int    `json:"n_boot"`
	NRes     int    `json:"n_res"`
	NEnd     int    `json:"n_end"`
	Pad      int    `json:"pad"`      // length of a padding description
	Unicode  bool   `json:"unicode"`  // non-ASCII and escaped characters in descriptions
	Extra    bool   `json:"extra"`    // unknown top-level field (forward compatibility)
	Indent   bool   `json:"indent"`   // pretty printed
	Trailer  string `json:"trailer"`  // whitespace after the closing brace
	NullMaps bool   `json:"nullmaps"` // omit the optional maps entirely
}

type Refresh struct {
	Kind    string  `json:"kind"` // new | same | 304
	Cfg     CfgSpec `json:"cfg"`  // for kind new
	ETag    bool    `json:"etag"`
	LastMod bool    `json:"last_mod"`
	ExtraMs int     `json:"extra_ms"` // time slept before the refresh = interval + ExtraMs
}

type Case struct {
	IntervalS int       `json:"interval_s"`
	CacheSize int       `json:"cache_size"`
	OffsetMs  int       `json:"offset_ms"` // sub-second phase of the virtual clock
	Prior     []Refresh `json:"prior"`
	Final     Refresh   `json:"final"`
}

var bootPool = []string{
	"/dnsaddr/bootstrap.libp2p.io/p2p/QmNnooDu7bfjPFoTZYxMNLWUQJyrVwtbZg5gBMjTezGAJN",
	"/ip4/104.131.131.82/tcp/4001/p2p/QmaCpDMGvV2BGHeYERUEnRQAwe3N8SzbUtfsmvsqQLuvuJ",
	"/ip4/104.131.131.82/udp/4001/quic-v1/p2p/QmaCpDMGvV2BGHeYERUEnRQAwe3N8SzbUtfsmvsqQLuvuJ",
	"/dnsaddr/va1.bootstrap.libp2p.io/p2p/12D3KooWKnDdG3iXw9eTFijk3EWSunZcFi54Zka4wmtqtt6rPxc8",
	"/ip6/2604:a880:1:20::203:d001/tcp/4001/p2p/QmSoLPppuBtQSGwKDZT2M73ULpjvfd3aZ6ha4oFGL1KrGM",
}

func (s CfgSpec) body() []byte {
	m := map[string]any{
		"AutoConfVersion": s.Version,
		"AutoConfSchema":  autoconf.SupportedAutoConfSchema,
		"AutoConfTTL":     s.TTL,
	}
	desc := "routing system"
	if s.Unicode {
		desc = "systém \"quoted\" \\ back/slash 日本語 é <tag> & \t tab"
	}
	if !s.NullMaps {
		reg := map[string]any{}
		boot := []string{}
		for i := 0; i < s.NBoot; i++ {
			boot = append(boot, bootPool[i%len(bootPool)])
		}
		reg["AminoDHT"] = map[string]any{
			"URL": "https://github.com/ipfs/specs/pull/497", "Description": desc + strings.Repeat("x", s.Pad),
			"NativeConfig":    map[string]any{"Bootstrap": boot},
			"DelegatedConfig": map[string]any{"Read": []string{"/routing/v1/providers", "/routing/v1/peers"}, "Write": []string{"/routing/v1/ipns"}},
		}
		reg["IPNI"] = map[string]any{
			"URL": "https://cid.contact", "Description": desc,
			"DelegatedConfig": map[string]any{"Read": []string{"/routing/v1/providers"}, "Write": []string{}},
		}
		m["SystemRegistry"] = reg
		res := map[string]any{}
		for i := 0; i < s.NRes; i++ {
			res[fmt.Sprintf("tld%d.", i)] = []string{fmt.Sprintf("https://dns%d.example.org/dns-query", i)}
		}
		m["DNSResolvers"] = res
		ends := map[string]any{}
		for i := 0; i < s.NEnd; i++ {
			ends[fmt.Sprintf("https://delegated%d.example.net", i)] = map[string]any{
				"Systems": []string{"IPNI"}, "Read": []string{"/routing/v1/providers"}, "Write": []string{},
			}
		}
		m["DelegatedEndpoints"] = ends
	}
	if s.Extra {
		m["FutureField"] = map[string]any{"a": []int{1, 2, 3}, "b": "ignored by this client"}
	}
	var b []byte
	var err error
	if s.Indent {
		b, err = json.MarshalIndent(m, "", "  ")
	} else {
		b, err = json.Marshal(m)
	}
	if err != nil {
		panic(err)
	}
	return append(b, s.Trailer...)
}

func genCfg(t *rapid.T, version int64) CfgSpec {
	maxPad := kit.Scale(600, 2600)
	return CfgSpec{
		Version:  version,
		TTL:      rapid.SampledFrom([]int{0, 0, 60, 3600, 86400, -1}).Draw(t, "ttl"),
		NBoot:    rapid.IntRange(0, 5).Draw(t, "nboot"),
		NRes:     rapid.IntRange(0, 3).Draw(t, "nres"),
		NEnd:     rapid.IntRange(0, 3).Draw(t, "nend"),
		Pad:      rapid.SampledFrom([]int{0, 0, 1, 17, maxPad / 4, maxPad}).Draw(t, "pad"),
		Unicode:  rapid.Bool().Draw(t, "unicode"),
		Extra:    rapid.Bool().Draw(t, "extra"),
		Indent:   rapid.Bool().Draw(t, "indent"),
		Trailer:  rapid.SampledFrom([]string{"", "", "\n", " \n\n", "\r\n"}).Draw(t, "trailer"),
		NullMaps: rapid.IntRange(0, 7).Draw(t, "nullmaps") == 0,
	}
}

func genRefresh(t *rapid.T, first bool, version int64, finalRefresh bool) Refresh {
	kind := "new"
	if !first {
		w := []string{"new", "new", "new", "new", "new", "new", "same", "304"}
		if finalRefresh {
			w = []string{"new", "new", "new", "new", "new", "new", "new", "same", "304", "304"}
		}
		kind = rapid.SampledFrom(w).Draw(t, "kind")
	}
	r := Refresh{Kind: kind}
	if kind == "new" {
		r.Cfg = genCfg(t, version)
	}
	r.ETag = rapid.Bool().Draw(t, "etag")
	r.LastMod = rapid.Bool().Draw(t, "lastmod")
	r.ExtraMs = rapid.SampledFrom([]int{0, 1, 999, 1000, 1001, 60000, 3599999, 86400000}).Draw(t, "extra_ms")
	return r
}

func gen(t *rapid.T) Case {
	c := Case{
		IntervalS: rapid.SampledFrom([]int{1, 2, 60, 3600, 86400}).Draw(t, "interval"),
		CacheSize: rapid.SampledFrom([]int{1, 1, 2, 3, 3, 5}).Draw(t, "cachesize"),
		OffsetMs:  rapid.IntRange(0, 999).Draw(t, "offset"),
	}
	n := rapid.IntRange(0, 3).Draw(t, "priors")
	version := int64(2025080100)
	for i := 0; i < n; i++ {
		version += int64(rapid.IntRange(1, 5).Draw(t, "dv"))
		c.Prior = append(c.Prior, genRefresh(t, i == 0, version, false))
	}
	version += int64(rapid.IntRange(1, 5).Draw(t, "dv"))
	c.Final = genRefresh(t, n == 0, version, true)
	return c
}

// ---------------------------------------------------------------------------
// in-memory HTTP

type reply struct {
	status  int
	body    []byte
	etag    string
	lastMod string
}

type memTransport struct {
	next  *reply
	calls int
}

func (m *memTransport) RoundTrip(req *http.Request) (*http.Response, error) {
	m.calls++
	r := m.next
	if r == nil {
		return nil, fmt.Errorf("memTransport: unexpected request")
	}
	h := http.Header{}
	if r.etag != "" {
		h.Set("ETag", r.etag)
	}
	if r.lastMod != "" {
		h.Set("Last-Modified", r.lastMod)
	}
	h.Set("Content-Type", "application/json")
	return &http.Response{
		Status: fmt.Sprintf("%d", r.status), StatusCode: r.status, Proto: "HTTP/1.1", ProtoMajor: 1, ProtoMinor: 1,
		Header: h, Body: io.NopCloser(bytes.NewReader(r.body)), ContentLength: int64(len(r.body)), Request: req,
	}, nil
}

// ---------------------------------------------------------------------------
// inotify observation

type fsEvent struct {
	mask   uint32
	cookie uint32
	name   string
}

type watcher struct{ fd int }

func newWatcher(dir string) *watcher {
	fd, err := unix.InotifyInit1(unix.IN_NONBLOCK | unix.IN_CLOEXEC)
	if err != nil {
		panic(fmt.Sprintf("harness: inotify_init: %v", err))
	}
	_, err = unix.InotifyAddWatch(fd, dir, unix.IN_CREATE|unix.IN_MODIFY|unix.IN_CLOSE_WRITE|unix.IN_MOVED_FROM|unix.IN_MOVED_TO|unix.IN_DELETE)
	if err != nil {
		unix.Close(fd)
		panic(fmt.Sprintf("harness: inotify_add_watch: %v", err))
	}
	return &watcher{fd}
}

func (w *watcher) close() { unix.Close(w.fd) }

// drain returns all queued events (the kernel queues them synchronously with the
// file system calls, so everything the refresh did is already there).
func (w *watcher) drain() []fsEvent {
	var out []fsEvent
	buf := make([]byte, 64*1024)
	for {
		n, err := unix.Read(w.fd, buf)
		if err == unix.EINTR {
			continue
		}
		if err == unix.EAGAIN || n <= 0 {
			return out
		}
		if err != nil {
			panic(fmt.Sprintf("harness: inotify read: %v", err))
		}
		off := 0
		for off+unix.SizeofInotifyEvent <= n {
			mask := uint32(buf[off+4]) | uint32(buf[off+5])<<8 | uint32(buf[off+6])<<16 | uint32(buf[off+7])<<24
			cookie := uint32(buf[off+8]) | uint32(buf[off+9])<<8 | uint32(buf[off+10])<<16 | uint32(buf[off+11])<<24
			l := int(uint32(buf[off+12]) | uint32(buf[off+13])<<8 | uint32(buf[off+14])<<16 | uint32(buf[off+15])<<24)
			name := string(bytes.TrimRight(buf[off+16:off+16+l], "\x00"))
			off += unix.SizeofInotifyEvent + l
			if mask&unix.IN_Q_OVERFLOW != 0 {
				panic("harness: inotify queue overflow")
			}
			out = append(out, fsEvent{mask, cookie, name})
		}
	}
}

// step of the observed write protocol
type step struct {
	kind string // write | rename | appear | delete
	name string
	to   string // rename target
}

func stepsFromEvents(evs []fsEvent) []step {
	var steps []step
	open := map[string]bool{}
	sessions := map[string]int{}
	pendingFrom := map[uint32]string{}
	for _, e := range evs {
		switch {
		case e.mask&(unix.IN_CREATE|unix.IN_MODIFY) != 0:
			if e.mask&unix.IN_ISDIR != 0 {
				panic("harness: directory created inside the cache directory")
			}
			if !open[e.name] {
				open[e.name] = true
				sessions[e.name]++
				steps = append(steps, step{kind: "write", name: e.name})
			}
		case e.mask&unix.IN_CLOSE_WRITE != 0:
			if !open[e.name] {
				sessions[e.name]++
				steps = append(steps, step{kind: "write", name: e.name})
			}
			open[e.name] = false
		case e.mask&unix.IN_MOVED_FROM != 0:
			pendingFrom[e.cookie] = e.name
		case e.mask&unix.IN_MOVED_TO != 0:
			if from, ok := pendingFrom[e.cookie]; ok {
				delete(pendingFrom, e.cookie)
				delete(open, from)
				steps = append(steps, step{kind: "rename", name: from, to: e.name})
			} else {
				steps = append(steps, step{kind: "appear", name: e.name})
			}
		case e.mask&unix.IN_DELETE != 0:
			delete(open, e.name)
			steps = append(steps, step{kind: "delete", name: e.name})
		}
	}
	for _, from := range pendingFrom {
		steps = append(steps, step{kind: "delete", name: from}) // moved out of the directory
	}
	return steps
}

func snapshot(dir string) map[string][]byte {
	out := map[string][]byte{}
	ents, err := os.ReadDir(dir)
	if err != nil {
		panic(fmt.Sprintf("harness: %v", err))
	}
	for _, e := range ents {
		if e.IsDir() {
			panic("harness: unexpected directory in cache dir")
		}
		b, err := os.ReadFile(filepath.Join(dir, e.Name()))
		if err != nil {
			panic(fmt.Sprintf("harness: %v", err))
		}
		out[e.Name()] = b
	}
	return out
}

// ---------------------------------------------------------------------------
// scenario execution (inside the bubble)

const testURL = "https://conf.example.test/autoconf.json"

func subdirFor(url string) string {
	h := fnv.New64a()
	h.Write([]byte(url))
	return fmt.Sprintf("%016x", h.Sum64())
}

type observed struct {
	fetched []*autoconf.Config // config of every successful refresh, in order
	before  map[string][]byte
	after   map[string][]byte
	steps   []step
}

func parseCfg(b []byte) (*autoconf.Config, bool) {
	var c autoconf.Config
	if err := json.Unmarshal(b, &c); err != nil {
		return nil, false
	}
	return &c, true
}

func runScenario(c Case, root string) observed {
	var ob observed
	// a realistic date: cache files are named by unix seconds (10 digits until 2286)
	base := time.Date(2025, 8, 1, 0, 0, 0, 0, time.UTC)
	time.Sleep(time.Until(base) + time.Duration(c.OffsetMs)*time.Millisecond)

	tr := &memTransport{}
	cl, err := autoconf.NewClient(
		autoconf.WithCacheDir(root), autoconf.WithURL(testURL), autoconf.WithCacheSize(c.CacheSize),
		autoconf.WithRefreshInterval(time.Duration(c.IntervalS)*time.Second),
		autoconf.WithHTTPClient(&http.Client{Transport: tr}),
	)
	if err != nil {
		panic(fmt.Sprintf("harness: NewClient: %v", err))
	}
	sub := filepath.Join(root, subdirFor(testURL))
	if err := os.MkdirAll(sub, 0o755); err != nil {
		panic(err)
	}

	var lastBody []byte
	doRefresh := func(i int, r Refresh) {
		time.Sleep(time.Duration(c.IntervalS)*time.Second + time.Duration(r.ExtraMs)*time.Millisecond)
		rep := &reply{status: 200}
		switch r.Kind {
		case "new":
			rep.body = r.Cfg.body()
			lastBody = rep.body
		case "same":
			rep.body = lastBody
		case "304":
			rep.status = 304
		}
		if r.ETag {
			rep.etag = fmt.Sprintf("\"v%d-%d\"", i, len(lastBody))
		}
		if r.LastMod {
			rep.lastMod = time.Now().UTC().Format(http.TimeFormat)
		}
		tr.next, tr.calls = rep, 0
		resp, err := cl.GetLatest(context.Background())
		if err != nil || resp == nil || resp.Config == nil {
			panic(fmt.Sprintf("harness: refresh %d (%s) did not succeed: %v", i, r.Kind, err))
		}
		if tr.calls != 1 {
			panic(fmt.Sprintf("harness: refresh %d made %d HTTP requests, expected 1", i, tr.calls))
		}
		want, ok := parseCfg(lastBody)
		if !ok {
			panic("harness: generated body does not parse")
		}
		ob.fetched = append(ob.fetched, want)
	}
	for i, r := range c.Prior {
		doRefresh(i, r)
	}
	ob.before = snapshot(sub)
	w := newWatcher(sub)
	defer w.close()
	doRefresh(len(c.Prior), c.Final)
	ob.steps = stepsFromEvents(w.drain())
	ob.after = snapshot(sub)
	ents, _ := os.ReadDir(root)
	if len(ents) != 1 || ents[0].Name() != filepath.Base(sub) {
		panic("harness: cache layout differs from the watched sub-directory")
	}
	return ob
}

// ---------------------------------------------------------------------------
// crash-state enumeration and oracle

func isCacheFileName(n string) bool {
	return strings.HasPrefix(n, "autoconf-") && strings.HasSuffix(n, ".json")
}

type verdict struct {
	states, strict, excluded int
	restartStates            int
	proto                    map[string]bool
	fail                     error // first failure outside every known signature
	known                    error // first failure matching F18
}

func equalCfg(a, b *autoconf.Config) bool { return reflect.DeepEqual(a, b) }

func enumerate(c Case, ob observed, crashRoot string) verdict {
	v := verdict{proto: map[string]bool{}}
	sub := filepath.Join(crashRoot, subdirFor(testURL))
	if err := os.MkdirAll(sub, 0o755); err != nil {
		panic(err)
	}
	newest := ob.fetched[len(ob.fetched)-1]
	var prev *autoconf.Config
	if len(ob.fetched) >= 2 {
		prev = ob.fetched[len(ob.fetched)-2]
	}
	fallback := autoconf.GetMainnetFallbackConfig()
	for _, f := range ob.fetched {
		if equalCfg(f, fallback) {
			panic("harness: generated config equals the built-in fallback")
		}
	}

	// file identities: follow every file through renames to its final name/content
	ids := map[string]int{}
	nextID := 0
	for n := range ob.before {
		ids[n] = nextID
		nextID++
	}
	stepID := make([]int, len(ob.steps))
	sessions := map[int]int{}
	for i, s := range ob.steps {
		switch s.kind {
		case "write", "appear":
			id, ok := ids[s.name]
			if !ok {
				id = nextID
				nextID++
				ids[s.name] = id
			}
			stepID[i] = id
			sessions[id]++
			if sessions[id] > 1 {
				panic(fmt.Sprintf("harness: file %q written in two sessions during one refresh; protocol not supported", s.name))
			}
		case "rename":
			id, ok := ids[s.name]
			if !ok {
				panic("harness: rename of unknown file " + s.name)
			}
			delete(ids, s.name)
			ids[s.to] = id
			stepID[i] = id
		case "delete":
			stepID[i] = ids[s.name]
			delete(ids, s.name)
		}
	}
	finalName := map[int]string{}
	for n, id := range ids {
		finalName[id] = n
	}
	if len(ids) != len(ob.after) {
		panic(fmt.Sprintf("harness: observed protocol ends with %d files, directory has %d", len(ids), len(ob.after)))
	}
	for n := range ob.after {
		if _, ok := ids[n]; !ok {
			panic("harness: observed protocol does not explain file " + n)
		}
	}

	// current crash state, mirrored on disk in sub
	cur := map[string][]byte{}
	put := func(n string, b []byte) {
		cur[n] = b
		if err := os.WriteFile(filepath.Join(sub, n), b, 0o600); err != nil {
			panic(err)
		}
	}
	del := func(n string) {
		delete(cur, n)
		os.Remove(filepath.Join(sub, n))
	}
	for n, b := range ob.before {
		put(n, b)
	}

	// independent validity of one cache file: parses and equals a fetched config
	// (memoised per content)
	type vkey struct {
		n int
		h uint64
	}
	validMemo := map[vkey]bool{}
	isValid := func(b []byte) bool {
		hh := fnv.New64a()
		hh.Write(b)
		k := vkey{len(b), hh.Sum64()}
		if r, ok := validMemo[k]; ok {
			return r
		}
		r := false
		if cfg, ok := parseCfg(b); ok {
			for _, f := range ob.fetched {
				if equalCfg(cfg, f) {
					r = true
					break
				}
			}
		}
		validMemo[k] = r
		return r
	}

	// independent scan of the current crash directory: cache file names (newest
	// first) and those of them that hold a fetched config
	scan := func() (names, valid []string) {
		for n := range cur {
			if isCacheFileName(n) {
				names = append(names, n)
			}
		}
		sort.Sort(sort.Reverse(sort.StringSlice(names)))
		for _, n := range names {
			if isValid(cur[n]) {
				valid = append(valid, n)
			}
		}
		return
	}
	// lastValid: the most recent earlier crash state (the state before the update
	// included) in which a valid cached version was on disk, and what it was. Once
	// the cache has held a validated version, the update in progress must not take it
	// away before the replacement is readable: "a later cached read returns a
	// configuration that was previously fetched and validated".
	lastValidDesc, lastValidNames := "", []string(nil)
	if _, valid := scan(); len(valid) > 0 {
		lastValidDesc, lastValidNames = "at the start of the update", valid
		v.proto["valid-before-update"] = true
	}

	// restore puts the crash directory back into the state cur (after a client was allowed
	// to write into it)
	restore := func() {
		ents, err := os.ReadDir(sub)
		if err != nil {
			panic(err)
		}
		for _, e := range ents {
			b, ok := cur[e.Name()]
			if !ok {
				os.RemoveAll(filepath.Join(sub, e.Name()))
				continue
			}
			if on, err := os.ReadFile(filepath.Join(sub, e.Name())); err != nil || !bytes.Equal(on, b) {
				if err := os.WriteFile(filepath.Join(sub, e.Name()), b, 0o600); err != nil {
					panic(err)
				}
			}
		}
		for n, b := range cur {
			if _, err := os.Stat(filepath.Join(sub, n)); err != nil {
				if err := os.WriteFile(filepath.Join(sub, n), b, 0o600); err != nil {
					panic(err)
				}
			}
		}
	}

	var judge func(desc string, tornName string, tornInPlace bool, afterFailedRefresh bool)
	check := func(desc string, tornName string, tornInPlace bool) {
		judge(desc, tornName, tornInPlace, false)
	}
	// checkRestart: the restarted process first tries a refresh while the server is
	// unreachable (HTTP 503), and only then reads the cache
	checkRestart := func(desc string, tornName string, tornInPlace bool) {
		if v.fail != nil {
			return
		}
		judge(desc+", then a refresh that fails with HTTP 503", tornName, tornInPlace, true)
		restore()
	}
	judge = func(desc string, tornName string, tornInPlace bool, afterFailedRefresh bool) {
		names, valid := scan()
		hadDesc, hadNames := lastValidDesc, lastValidNames
		if afterFailedRefresh {
			v.restartStates++
			v.proto["restart-with-failed-refresh"] = true
			tr := &memTransport{next: &reply{status: 503}}
			rc, err := autoconf.NewClient(autoconf.WithCacheDir(crashRoot), autoconf.WithURL(testURL),
				autoconf.WithHTTPClient(&http.Client{Transport: tr}))
			if err != nil {
				panic(err)
			}
			_, _ = rc.GetLatest(context.Background())
		} else {
			v.states++
			if len(valid) > 0 {
				lastValidDesc, lastValidNames = "in the state \""+desc+"\"", valid
			}
		}
		cl, err := autoconf.NewClient(autoconf.WithCacheDir(crashRoot), autoconf.WithURL(testURL))
		if err != nil {
			panic(err)
		}
		got := cl.GetCached()
		if got == nil {
			if v.fail == nil {
				v.fail = fmt.Errorf("%s: GetCached returned nil", desc)
			}
			return
		}
		if equalCfg(got, newest) || (prev != nil && equalCfg(got, prev)) {
			return
		}
		if equalCfg(got, fallback) {
			if len(valid) == 0 {
				if hadNames == nil {
					return // nothing valid is or was cached: the fallback is the specified answer
				}
				// the update itself removed (or invalidated) every valid cached version
				// before a replacement became readable
				if v.fail == nil {
					v.fail = fmt.Errorf("%s: GetCached returned the built-in fallback: no valid cached version is left, although valid cached version(s) %v existed %s (the interrupted update destroyed them before the new version was readable)", desc, hadNames, hadDesc)
				}
				v.proto["valid-version-lost"] = true
				return
			}
			err := fmt.Errorf("%s: GetCached returned the built-in fallback although valid cached version(s) %v exist", desc, valid)
			// F18: the newest cache file is the one being written in place under its final
			// name and is torn; the reader looks at nothing else.
			if tornName != "" && tornInPlace && len(names) > 0 && names[0] == tornName && isCacheFileName(tornName) {
				v.excluded++
				if v.known == nil {
					v.known = err
				}
				return
			}
			if v.fail == nil {
				v.fail = err
			}
			return
		}
		for i, f := range ob.fetched {
			if equalCfg(got, f) {
				if v.fail == nil {
					v.fail = fmt.Errorf("%s: GetCached returned fetched version #%d (AutoConfVersion %d), neither the new one nor the newest earlier one (%d fetched)", desc, i, f.AutoConfVersion, len(ob.fetched))
				}
				return
			}
		}
		if v.fail == nil {
			gj, _ := json.Marshal(got)
			if len(gj) > 300 {
				gj = append(gj[:300], "..."...)
			}
			v.fail = fmt.Errorf("%s: GetCached returned a configuration that was never fetched: %s", desc, gj)
		}
	}

	check("before the first write", "", false)
	for i, s := range ob.steps {
		id := stepID[i]
		switch s.kind {
		case "write":
			fn, ok := finalName[id]
			if !ok {
				// written, then removed again within the same refresh: content unknown
				v.proto["transient-file"] = true
				if _, existed := ob.before[s.name]; !existed && s.kind == "write" {
					// a file created during the update exists empty at the moment of its creation
					put(s.name, nil)
					check(fmt.Sprintf("step %d: transient file %q just created (empty)", i, s.name), "", false)
					checkRestart(fmt.Sprintf("step %d: transient file %q just created (empty)", i, s.name), "", false)
				}
				del(s.name)
				continue
			}
			content := ob.after[fn]
			inPlace := fn == s.name
			if isCacheFileName(fn) {
				if inPlace {
					v.proto["config:in-place"] = true
				} else {
					v.proto["config:temp+rename"] = true
				}
			}
			// k = 0: created / truncated to empty; then one more byte per crash state
			put(s.name, nil)
			fh, err := os.OpenFile(filepath.Join(sub, s.name), os.O_WRONLY|os.O_APPEND, 0)
			if err != nil {
				panic(err)
			}
			for k := 0; k <= len(content); k++ {
				if k > 0 {
					if _, err := fh.Write(content[k-1 : k]); err != nil {
						panic(err)
					}
					cur[s.name] = content[:k]
				}
				if k < len(content) {
					v.strict++
					check(fmt.Sprintf("step %d: %q truncated to %d of %d bytes", i, s.name, k, len(content)), s.name, inPlace)
					if k == 0 || k == len(content)/2 {
						fh.Close()
						checkRestart(fmt.Sprintf("step %d: %q truncated to %d of %d bytes", i, s.name, k, len(content)), s.name, inPlace)
						if fh, err = os.OpenFile(filepath.Join(sub, s.name), os.O_WRONLY|os.O_APPEND, 0); err != nil {
							panic(err)
						}
					}
				} else {
					check(fmt.Sprintf("step %d: %q complete", i, s.name), "", false)
					fh.Close()
					checkRestart(fmt.Sprintf("step %d: %q complete", i, s.name), "", false)
					if fh, err = os.OpenFile(filepath.Join(sub, s.name), os.O_WRONLY|os.O_APPEND, 0); err != nil {
						panic(err)
					}
				}
			}
			fh.Close()
		case "appear":
			put(s.name, ob.after[finalName[id]])
			check(fmt.Sprintf("step %d: %q moved into the directory", i, s.name), "", false)
		case "rename":
			b, ok := cur[s.name]
			if !ok {
				panic("harness: rename source missing in model: " + s.name)
			}
			del(s.name)
			put(s.to, b)
			check(fmt.Sprintf("step %d: %q renamed to %q", i, s.name, s.to), "", false)
			checkRestart(fmt.Sprintf("step %d: %q renamed to %q", i, s.name, s.to), "", false)
		case "delete":
			del(s.name)
			if isCacheFileName(s.name) {
				v.proto["cleanup-delete"] = true
			}
			check(fmt.Sprintf("step %d: %q removed", i, s.name), "", false)
			checkRestart(fmt.Sprintf("step %d: %q removed", i, s.name), "", false)
		}
	}
	// the replayed protocol must end in the observed final directory
	if len(cur) != len(ob.after) {
		panic("harness: replayed protocol does not reproduce the final directory (file set)")
	}
	for n, b := range ob.after {
		if !bytes.Equal(cur[n], b) {
			panic("harness: replayed protocol does not reproduce the final content of " + n)
		}
	}
	return v
}

// ---------------------------------------------------------------------------
// run

var curT *testing.T

type outcome struct {
	v        verdict
	ob       observed
	panicMsg string
}

// tmpDir prefers a memory file system: the enumeration performs one write and one
// directory scan per crash state and the crash is modelled, not physically induced.
func tmpDir() string {
	if st, err := os.Stat("/dev/shm"); err == nil && st.IsDir() {
		if d, err := os.MkdirTemp("/dev/shm", "c45-probe-"); err == nil {
			os.Remove(d)
			return "/dev/shm"
		}
	}
	return ""
}

func execute(c Case) outcome {
	root, err := os.MkdirTemp(tmpDir(), "c45-cache-")
	if err != nil {
		panic(err)
	}
	defer os.RemoveAll(root)
	crash, err := os.MkdirTemp(tmpDir(), "c45-crash-")
	if err != nil {
		panic(err)
	}
	defer os.RemoveAll(crash)

	var out outcome
	synctest.Test(curT, func(t *testing.T) {
		defer func() {
			if r := recover(); r != nil {
				out.panicMsg = fmt.Sprint(r)
			}
		}()
		out.ob = runScenario(c, root)
		out.v = enumerate(c, out.ob, crash)
	})
	return out
}

var totalStates, totalExcluded int

func run(c Case) kit.Result {
	out := execute(c)
	if out.panicMsg != "" {
		panic(out.panicMsg) // harness or library panic: surfaces through kit.SafeRun
	}
	v := out.v
	totalStates += v.states
	totalExcluded += v.excluded
	if v.fail != nil {
		return kit.Result{Err: v.fail}
	}
	if v.known != nil {
		return kit.Result{Err: fmt.Errorf("%w (%d of %d crash states)", v.known, v.excluded, v.states), Known: findingF18}
	}
	earlier := len(out.ob.before) > 0 && len(out.ob.fetched) >= 2
	cls := []string{
		fmt.Sprintf("priors:%d", len(c.Prior)), "final:" + c.Final.Kind, fmt.Sprintf("cachesize:%d", c.CacheSize),
		fmt.Sprintf("steps:%d", len(out.ob.steps)),
	}
	for p := range v.proto {
		cls = append(cls, "proto:"+p)
	}
	sort.Strings(cls)
	return kit.Result{NonTrivial: earlier && v.strict > 0, Classes: cls}
}

func sample(c Case) any {
	return map[string]any{
		"interval_s": c.IntervalS, "cache_size": c.CacheSize, "priors": len(c.Prior), "final_kind": c.Final.Kind,
		"final_body_len": len(c.Final.Cfg.body()), "case": c,
	}
}

var spec = kit.Spec[Case]{
	Prop: "C45", Name: "main",
	Rule:  "autoconf client in a synctest bubble with an in-memory RoundTripper: 0..3 successful refreshes (new payload / identical payload / 304), then one more refresh observed with inotify; every crash state of the observed write protocol (every byte truncation of each file written in place with later files in their old state, temp-file truncations and atomic rename steps, removals) is materialised and a fresh client's GetCached() must return the new or the newest earlier fetched config, the fallback only when no valid autoconf-*.json exists in the crash state nor existed in any earlier state of the update (the state before the update included: an update must not remove the last valid version before its replacement is readable; cache size 1 is generated with weight 1/3 for this); a file created and removed again within the update is materialised empty at its creation; at every protocol step boundary and at the 0-byte and half-way truncation of every file the restarted process is also made to attempt a refresh against a server answering 503 before the cached read, under the same oracle; non-trivial = at least one earlier cached version exists and strict truncations were checked",
	Quick: 50, Thorough: 200,
	Gen: gen, Run: run, Sample: sample,
}

func TestProp(t *testing.T) {
	t.Run("replay", func(t *testing.T) { curT = t; kit.Replay(t, spec) })
	t.Run("findings", func(t *testing.T) { curT = t; kit.RunFindings(t, spec) })
	t.Run("search", func(t *testing.T) {
		curT = t
		kit.Check(t, spec)
		kit.Note("C45", "main", "crash_states_checked_last_shard", totalStates)
		kit.Note("C45", "main", "crash_states_matching_F18_last_shard", totalExcluded)
	})
}
