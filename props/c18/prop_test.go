package c18

// C18 UnixFS metadata round-trips.
//
// Sub-checks
//   modegrid  exhaustive: all 4096 permission values x extended bits {0,1,0xFFFFF} x node type
//             x setter variant; decode(encode(node)) must report the same 12 permission bits
//             and the same extended bits.
//   mtime     generated: mtimes over sign / magnitude / nanosecond classes (and time zones),
//             through the FSNode setters and through the *PBDataWithStat producers; the decoded
//             instant must be Equal, zero time <=> unset.
//   sizes     generated: FileSize()/DataSize() on file, raw and symlink nodes equal the content
//             length (inline data + child block sizes for files), also after sequences of
//             AddBlockSize / RemoveBlockSize / RemoveAllBlockSizes / SetData / re-decode.

import (
	"fmt"
	"os"
	"testing"
	"time"

	"github.com/ipfs/boxo/files"
	unixfs "github.com/ipfs/boxo/ipld/unixfs"
	pb "github.com/ipfs/boxo/ipld/unixfs/pb"
	"pgregory.net/rapid"
	"verif/kit"
)

func TestMain(m *testing.M) { kit.Main(m) }

var nodeTypes = []pb.Data_DataType{unixfs.TFile, unixfs.TRaw, unixfs.TDirectory, unixfs.TSymlink, unixfs.THAMTShard}

const permMask = os.ModePerm | os.ModeSetuid | os.ModeSetgid | os.ModeSticky
const typeMask = os.ModeDir | os.ModeSymlink

// independent conversion unix permission bits -> os.FileMode (documented layout of os.FileMode)
func permsToFileMode(p uint32) os.FileMode {
	m := os.FileMode(p & 0o777)
	if p&0o4000 != 0 {
		m |= os.ModeSetuid
	}
	if p&0o2000 != 0 {
		m |= os.ModeSetgid
	}
	if p&0o1000 != 0 {
		m |= os.ModeSticky
	}
	return m
}

func newNode(typ pb.Data_DataType) *unixfs.FSNode {
	n := unixfs.NewFSNode(typ)
	switch typ {
	case unixfs.TSymlink:
		n.SetData([]byte("target/path"))
	case unixfs.TFile, unixfs.TRaw:
		n.SetData([]byte("content"))
	}
	return n
}

// ---------------------------------------------------------------------------
// modegrid

type ModeCase struct {
	Perm    uint32 `json:"perm"`    // 0..07777
	Ext     uint32 `json:"ext"`     // extended (upper 20) mode bits
	Type    int    `json:"type"`    // index into nodeTypes
	Variant int    `json:"variant"` // 0 ext,SetMode  1 SetMode,ext  2 ext,SetMode(with type/other bits)  3 ext,SetModeFromUnixPermissions
}

func runMode(c ModeCase) kit.Result {
	if c.Type < 0 || c.Type >= len(nodeTypes) || c.Perm > 0o7777 {
		return kit.Result{}
	}
	typ := nodeTypes[c.Type]
	want := permsToFileMode(c.Perm)
	n := newNode(typ)
	switch c.Variant {
	case 0:
		n.SetExtendedMode(c.Ext)
		n.SetMode(want)
	case 1:
		n.SetMode(want)
		n.SetExtendedMode(c.Ext)
	case 2:
		n.SetExtendedMode(c.Ext)
		// real callers pass fs.FileMode values carrying the file type bits
		m := want
		switch typ {
		case unixfs.TDirectory, unixfs.THAMTShard:
			m |= os.ModeDir
		case unixfs.TSymlink:
			m |= os.ModeSymlink
		}
		n.SetMode(m)
	default:
		n.SetExtendedMode(c.Ext)
		n.SetModeFromUnixPermissions(c.Perm)
	}
	b, err := n.GetBytes()
	if err != nil {
		return kit.Fail("GetBytes: %v", err)
	}
	d, err := unixfs.FSNodeFromBytes(b)
	if err != nil {
		return kit.Fail("FSNodeFromBytes: %v", err)
	}
	if d.Type() != typ {
		return kit.Fail("type %v decoded as %v", typ, d.Type())
	}
	got := d.Mode()
	if got&^typeMask != want {
		return kit.Fail("perm %04o (mode %v, %#x) set on %v reads back as %v (%#x)", c.Perm, want, uint32(want), typ, got, uint32(got))
	}
	if c.Perm == 0 && got != 0 {
		return kit.Fail("no permissions set but Mode()=%v", got)
	}
	if back := files.ModePermsToUnixPerms(got); back != c.Perm {
		return kit.Fail("perm %04o reads back as unix permissions %04o", c.Perm, back)
	}
	if e := d.ExtendedMode(); e != c.Ext&0xFFFFF {
		return kit.Fail("extended mode %#x reads back as %#x (perm %04o)", c.Ext&0xFFFFF, e, c.Perm)
	}
	// the in-memory node must agree with the decoded one
	if n.Mode() != got || n.ExtendedMode() != d.ExtendedMode() {
		return kit.Fail("node before serialization reports %v/%#x, after %v/%#x", n.Mode(), n.ExtendedMode(), got, d.ExtendedMode())
	}
	cls := []string{fmt.Sprintf("type:%v", typ), fmt.Sprintf("variant:%d", c.Variant)}
	nt := c.Perm&0o7000 != 0
	if nt {
		cls = append(cls, "special-bits")
	}
	if c.Ext != 0 {
		cls = append(cls, "ext!=0")
	}
	return kit.Result{NonTrivial: nt, Classes: cls}
}

var modeSpec = kit.Spec[ModeCase]{
	Prop: "C18", Name: "modegrid",
	Rule:   "exhaustive grid: 4096 permission values x extended bits {0,1,0xFFFFF} x node type {File,Raw,Directory,Symlink,HAMTShard} x 4 setter variants; non-trivial = a setuid/setgid/sticky bit is set",
	Run:    runMode,
	Sample: func(c ModeCase) any { return c },
}

func modeGrid(yield func(ModeCase) bool) {
	for ti := range nodeTypes {
		for v := 0; v < 4; v++ {
			for _, ext := range []uint32{0, 1, 0xFFFFF} {
				for p := uint32(0); p <= 0o7777; p++ {
					if !yield(ModeCase{Perm: p, Ext: ext, Type: ti, Variant: v}) {
						return
					}
				}
			}
		}
	}
}

func TestPropModeGrid(t *testing.T) {
	t.Run("replay", func(t *testing.T) { kit.Replay(t, modeSpec) })
	t.Run("findings", func(t *testing.T) { kit.RunFindings(t, modeSpec) })
	t.Run("search", func(t *testing.T) {
		if kit.Shard() != "0" {
			t.Skip("the grid is enumerated by shard 0 only")
		}
		kit.Exhaustive(t, modeSpec, modeGrid)
	})
}

// ---------------------------------------------------------------------------
// mtime

type TimeCase struct {
	Sec     int64  `json:"sec"`
	Nsec    int64  `json:"nsec"` // 0..999999999
	Unset   bool   `json:"unset"`
	Zone    int    `json:"zone"` // 0 local (time.Unix), 1 UTC, 2 fixed +05:30, 3 fixed -11:00
	Perm    uint32 `json:"perm"`
	Type    int    `json:"type"`
	Via     int    `json:"via"`     // 0 FSNode setters, 1 *PBDataWithStat producer
	ReSet   bool   `json:"reset"`   // setters only: first set another time with nanoseconds, then the real one
	ReNsec  int64  `json:"re_nsec"` // nanoseconds of the first value
	ClearIt bool   `json:"clear"`   // setters only: after setting, set the zero time again -> must read unset
}

const year1 = -62135596800 // Unix seconds of 0001-01-01T00:00:00Z (the zero time.Time)

func genTime(t *rapid.T) TimeCase {
	c := TimeCase{}
	c.Unset = rapid.IntRange(0, 9).Draw(t, "unset") == 0
	switch rapid.IntRange(0, 5).Draw(t, "secclass") {
	case 0:
		c.Sec = rapid.SampledFrom([]int64{0, 1, -1, year1, year1 - 1, year1 + 1, 253402300799, 253402300800,
			1<<31 - 1, 1 << 31, 1 << 32, -(1 << 31), -(1 << 40), 1 << 55, -(1 << 55), 127, 128, 16383, 16384}).Draw(t, "sec")
	case 1:
		c.Sec = rapid.Int64Range(-(1<<55), -1).Draw(t, "sec")
	case 2:
		c.Sec = rapid.Int64Range(0, 1<<55).Draw(t, "sec")
	case 3:
		c.Sec = rapid.Int64Range(1500000000, 1900000000).Draw(t, "sec")
	default:
		c.Sec = rapid.Int64Range(-100000, 100000).Draw(t, "sec")
	}
	switch rapid.IntRange(0, 4).Draw(t, "nclass") {
	case 0, 1:
		c.Nsec = 0
	case 2:
		c.Nsec = rapid.SampledFrom([]int64{1, 999999999, 500000000, 1000, 1000000}).Draw(t, "nsec")
	default:
		c.Nsec = rapid.Int64Range(1, 999999999).Draw(t, "nsec")
	}
	c.Zone = rapid.IntRange(0, 3).Draw(t, "zone")
	c.Perm = rapid.SampledFrom([]uint32{0, 0, 0o644, 0o755, 0o7777, 0o1000, 1}).Draw(t, "perm")
	c.Type = rapid.IntRange(0, len(nodeTypes)-1).Draw(t, "type")
	c.Via = rapid.IntRange(0, 1).Draw(t, "via")
	c.ReSet = rapid.Bool().Draw(t, "reset")
	c.ReNsec = rapid.Int64Range(0, 999999999).Draw(t, "re_nsec")
	c.ClearIt = rapid.IntRange(0, 7).Draw(t, "clear") == 0
	return c
}

func (c TimeCase) time() time.Time {
	if c.Unset {
		return time.Time{}
	}
	ts := time.Unix(c.Sec, c.Nsec)
	switch c.Zone {
	case 1:
		ts = ts.UTC()
	case 2:
		ts = ts.In(time.FixedZone("p", 5*3600+1800))
	case 3:
		ts = ts.In(time.FixedZone("m", -11*3600))
	}
	return ts
}

func runTime(c TimeCase) kit.Result {
	if c.Type < 0 || c.Type >= len(nodeTypes) || c.Nsec < 0 || c.Nsec > 999999999 || c.Perm > 0o7777 ||
		c.Sec > 1<<56 || c.Sec < -(1<<56) || c.ReNsec < 0 || c.ReNsec > 999999999 {
		return kit.Result{}
	}
	typ := nodeTypes[c.Type]
	ts := c.time()
	mode := permsToFileMode(c.Perm)
	var b []byte
	via := "setters"
	if c.Via == 1 && (typ == unixfs.TFile || typ == unixfs.TDirectory || typ == unixfs.THAMTShard) {
		via = "producer"
		switch typ {
		case unixfs.TFile:
			b = unixfs.FilePBDataWithStat([]byte("content"), 7, mode, ts)
		case unixfs.TDirectory:
			b = unixfs.FolderPBDataWithStat(mode, ts)
		default:
			var err error
			b, err = unixfs.HAMTShardDataWithStat([]byte{0}, 8, 0x22, mode, ts)
			if err != nil {
				return kit.Fail("HAMTShardDataWithStat: %v", err)
			}
		}
	} else {
		n := newNode(typ)
		if got := n.ModTime(); !got.IsZero() {
			return kit.Fail("fresh node reports mtime %v", got)
		}
		if c.ReSet {
			n.SetModTime(time.Unix(c.Sec^0x5555, c.ReNsec))
		}
		n.SetMode(mode)
		n.SetModTime(ts)
		if got := n.ModTime(); !got.Equal(ts) || got.IsZero() != ts.IsZero() {
			return kit.Fail("SetModTime(%v) then ModTime()=%v before serialization", ts, got)
		}
		if c.ClearIt {
			n.SetModTime(time.Time{})
			ts = time.Time{}
		}
		var err error
		b, err = n.GetBytes()
		if err != nil {
			return kit.Fail("GetBytes: %v", err)
		}
	}
	d, err := unixfs.FSNodeFromBytes(b)
	if err != nil {
		return kit.Fail("FSNodeFromBytes: %v", err)
	}
	got := d.ModTime()
	if ts.IsZero() {
		if !got.IsZero() {
			return kit.Fail("unset mtime reads back as %v (%s)", got, via)
		}
	} else {
		if got.IsZero() {
			return kit.Fail("mtime %v (sec=%d nsec=%d) reads back as unset (%s)", ts, c.Sec, c.Nsec, via)
		}
		if !got.Equal(ts) || got.Unix() != c.Sec || int64(got.Nanosecond()) != c.Nsec {
			return kit.Fail("mtime sec=%d nsec=%d reads back as sec=%d nsec=%d (%s)", c.Sec, c.Nsec, got.Unix(), got.Nanosecond(), via)
		}
	}
	if m := d.Mode(); m&^typeMask != mode {
		return kit.Fail("mode %v reads back as %v next to mtime %v (%s)", mode, m, ts, via)
	}
	cls := []string{"via:" + via}
	switch {
	case ts.IsZero():
		cls = append(cls, "time:unset")
	case c.Sec < 0:
		cls = append(cls, "time:negative")
	default:
		cls = append(cls, "time:nonnegative")
	}
	nt := !ts.IsZero() && c.Nsec != 0
	if nt {
		cls = append(cls, "nanos!=0")
	}
	if !ts.IsZero() && c.Sec < 0 && c.Nsec != 0 {
		cls = append(cls, "negative+nanos")
	}
	return kit.Result{NonTrivial: nt, Classes: cls}
}

var timeSpec = kit.Spec[TimeCase]{
	Prop: "C18", Name: "mtime",
	Rule:  "mtime drawn from second classes (0, +-1, year 1, year 9999, 2^31, 2^32, +-2^55, random) x nanosecond classes (0, 1, 999999999, random) x time zone x node type, set through FSNode.SetModTime (optionally after another value / then cleared) or through the *PBDataWithStat producers; non-trivial = set with nanoseconds != 0",
	Quick: 40000, Thorough: 200000,
	Gen: genTime, Run: runTime,
}

func TestPropMtime(t *testing.T) { kit.All(t, timeSpec) }

// ---------------------------------------------------------------------------
// sizes

type SizeCase struct {
	Kind    string   `json:"kind"` // file | raw | symlink
	Data    []byte   `json:"data"`
	Data2   []byte   `json:"data2"`   // file: replaces Data afterwards when Replace is set
	Replace bool     `json:"replace"` //
	Blocks  []uint64 `json:"blocks"`  // file: child block sizes
	Remove  []int    `json:"remove"`  // file: indexes (mod current count) removed afterwards
	Perm    uint32   `json:"perm"`
	Ops     []SizeOp `json:"ops,omitempty"` // file: further edits applied after the steps above
}

// SizeOp is one later edit of a file node. The sequence decode -> RemoveAllBlockSizes ->
// AddBlockSize* -> GetBytes is what the dag modifier's truncate does with an existing node.
type SizeOp struct {
	Op   string `json:"op"`             // add | remove | removeall | setdata | reload
	Size uint64 `json:"size,omitempty"` // add: child block size; remove: index (mod current count)
	Data []byte `json:"data,omitempty"` // setdata: the new inline data
}

func genSize(t *rapid.T) SizeCase {
	c := SizeCase{}
	c.Kind = rapid.SampledFrom([]string{"file", "file", "raw", "symlink"}).Draw(t, "kind")
	c.Data = kit.Bytes(kit.Scale(2000, 70000)).Draw(t, "data")
	c.Perm = rapid.SampledFrom([]uint32{0, 0o644, 0o7777}).Draw(t, "perm")
	if c.Kind == "file" {
		c.Replace = rapid.Bool().Draw(t, "replace")
		if c.Replace {
			c.Data2 = kit.Bytes(300).Draw(t, "data2")
		}
		c.Blocks = rapid.SliceOfN(rapid.OneOf(rapid.Uint64Range(0, 300), rapid.Uint64Range(0, 1<<40),
			rapid.SampledFrom([]uint64{0, 1, 127, 128, 262144, 1 << 32})), 0, 8).Draw(t, "blocks")
		c.Remove = rapid.SliceOfN(rapid.IntRange(0, 7), 0, 3).Draw(t, "remove")
		if rapid.Bool().Draw(t, "edit") {
			c.Ops = rapid.SliceOfN(rapid.Custom(genSizeOp), 1, 6).Draw(t, "ops")
		}
	}
	return c
}

func genSizeOp(t *rapid.T) SizeOp {
	o := SizeOp{Op: rapid.SampledFrom([]string{"add", "add", "remove", "removeall", "removeall", "setdata", "reload", "reload"}).Draw(t, "op")}
	switch o.Op {
	case "add":
		o.Size = rapid.OneOf(rapid.Uint64Range(0, 300), rapid.Uint64Range(0, 1<<40),
			rapid.SampledFrom([]uint64{0, 1, 127, 128, 262144, 1 << 32})).Draw(t, "size")
	case "remove":
		o.Size = rapid.Uint64Range(0, 15).Draw(t, "index")
	case "setdata":
		o.Data = kit.Bytes(300).Draw(t, "opdata")
	}
	return o
}

func runSize(c SizeCase) kit.Result {
	mode := permsToFileMode(c.Perm & 0o7777)
	var opcls []string
	want := uint64(len(c.Data))
	var n *unixfs.FSNode
	var extra [][]byte // other encodings of the same content through the producer functions
	switch c.Kind {
	case "file":
		n = unixfs.NewFSNode(unixfs.TFile)
		n.SetData(c.Data)
		blocks := append([]uint64(nil), c.Blocks...)
		for _, s := range blocks {
			if s > 1<<41 {
				return kit.Result{}
			}
			n.AddBlockSize(s)
		}
		for _, r := range c.Remove {
			if len(blocks) == 0 {
				break
			}
			if r < 0 {
				r = -r
			}
			i := r % len(blocks)
			n.RemoveBlockSize(i)
			blocks = append(blocks[:i], blocks[i+1:]...)
		}
		data := c.Data
		if c.Replace {
			n.SetData(c.Data2)
			data = c.Data2
		}
		sum := func() uint64 {
			w := uint64(len(data))
			for _, s := range blocks {
				w += s
			}
			return w
		}
		if len(c.Ops) > 16 {
			return kit.Result{}
		}
		seen := map[string]bool{}
		for i, o := range c.Ops {
			cl := "op:" + o.Op
			switch o.Op {
			case "add":
				if o.Size > 1<<41 {
					return kit.Result{}
				}
				n.AddBlockSize(o.Size)
				blocks = append(blocks, o.Size)
			case "remove":
				if len(blocks) == 0 {
					continue
				}
				j := int(o.Size % uint64(len(blocks)))
				n.RemoveBlockSize(j)
				blocks = append(blocks[:j], blocks[j+1:]...)
			case "removeall":
				n.RemoveAllBlockSizes()
				blocks = blocks[:0]
				if len(data) > 0 {
					cl = "op:removeall+inline-data"
				}
			case "setdata":
				n.SetData(o.Data)
				data = o.Data
			case "reload":
				// continue on the decoded form, as code editing a stored node does
				enc, err := n.GetBytes()
				if err != nil {
					return kit.Fail("GetBytes (op %d): %v", i, err)
				}
				if n, err = unixfs.FSNodeFromBytes(enc); err != nil {
					return kit.Fail("FSNodeFromBytes (op %d): %v", i, err)
				}
			default:
				return kit.Result{}
			}
			if !seen[cl] {
				seen[cl] = true
				opcls = append(opcls, cl)
			}
			if got, w := n.FileSize(), sum(); got != w {
				return kit.Fail("file: FileSize()=%d after op %d (%s), content length %d (inline %d + %d child blocks)", got, i, o.Op, w, len(data), len(blocks))
			}
		}
		want = sum()
		if n.NumChildren() != len(blocks) {
			return kit.Fail("NumChildren()=%d, %d block sizes were kept", n.NumChildren(), len(blocks))
		}
		extra = append(extra, unixfs.FilePBData(data, want), unixfs.FilePBDataWithStat(data, want, mode, time.Unix(1, 5)))
	case "raw":
		n = unixfs.NewFSNode(unixfs.TRaw)
		n.SetData(c.Data)
		extra = append(extra, unixfs.WrapData(c.Data))
	case "symlink":
		n = unixfs.NewFSNode(unixfs.TSymlink)
		n.SetData(c.Data)
		sd, err := unixfs.SymlinkData(string(c.Data))
		if err != nil {
			return kit.Fail("SymlinkData: %v", err)
		}
		extra = append(extra, sd)
	default:
		return kit.Result{}
	}
	n.SetMode(mode)
	if got := n.FileSize(); got != want {
		return kit.Fail("%s: FileSize()=%d before serialization, content length %d", c.Kind, got, want)
	}
	b, err := n.GetBytes()
	if err != nil {
		return kit.Fail("GetBytes: %v", err)
	}
	for i, enc := range append([][]byte{b}, extra...) {
		d, err := unixfs.FSNodeFromBytes(enc)
		if err != nil {
			return kit.Fail("FSNodeFromBytes(encoding %d): %v", i, err)
		}
		if got := d.FileSize(); got != want {
			return kit.Fail("%s: decoded FileSize()=%d, content length %d (encoding %d)", c.Kind, got, want, i)
		}
		ds, err := unixfs.DataSize(enc)
		if err != nil {
			return kit.Fail("%s: DataSize: %v (encoding %d)", c.Kind, err, i)
		}
		if ds != want {
			return kit.Fail("%s: DataSize()=%d, content length %d (encoding %d)", c.Kind, ds, want, i)
		}
	}
	cls := append([]string{"kind:" + c.Kind}, opcls...)
	nt := want > 0
	if c.Kind == "file" && len(c.Blocks) > 0 {
		cls = append(cls, "file:multiblock")
	}
	if len(c.Data) == 0 {
		cls = append(cls, "empty-data")
	}
	return kit.Result{NonTrivial: nt, Classes: cls}
}

var sizeSpec = kit.Spec[SizeCase]{
	Prop: "C18", Name: "sizes",
	Rule:  "file (inline data + 0..8 child block sizes, some removed again, data optionally replaced, then for half of the cases 1..6 further edits from {AddBlockSize, RemoveBlockSize, RemoveAllBlockSizes, SetData, re-decode from GetBytes} with FileSize() checked after each), raw and symlink nodes with generated content; FileSize() before/after serialization and DataSize() on the FSNode encoding and on the FilePBData/WrapData/SymlinkData encodings must equal the content length; non-trivial = content length > 0",
	Quick: 15000, Thorough: 60000,
	Gen: genSize, Run: runSize,
	Sample: func(c SizeCase) any {
		return map[string]any{"kind": c.Kind, "data_len": len(c.Data), "blocks": c.Blocks, "remove": c.Remove, "replace": c.Replace, "ops": len(c.Ops)}
	},
}

func TestPropSizes(t *testing.T) { kit.All(t, sizeSpec) }
