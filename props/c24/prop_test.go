package c24

import (
	"context"
	"errors"
	"fmt"
	"runtime"
	"sort"
	"strings"
	"testing"

	"github.com/ipfs/boxo/pinning/pinner/dsindex"
	ds "github.com/ipfs/go-datastore"
	dssync "github.com/ipfs/go-datastore/sync"
	"pgregory.net/rapid"
	"verif/kit"
)

// Sequential harness: every index call is a datastore query served by a helper goroutine;
// with one P those hand-offs are cheap (4x faster than with 16 Ps on a busy machine).
func TestMain(m *testing.M) {
	runtime.GOMAXPROCS(1)
	kit.Main(m)
}

// Op is one Indexer call. Keys and values are arbitrary byte strings ([]byte so that the case
// survives JSON; the Indexer API takes Go strings, which may hold any bytes).
type Op struct {
	Kind string `json:"kind"` // add | addn | del | delkey | delall | search | hasvalue | hasany | foreach
	Key  []byte `json:"key"`
	Val  []byte `json:"val,omitempty"`
	// addn: N Add calls in a row. The i-th (1..N) adds (Key, Val+suffix(i)), or with Spread
	// (Key+suffix(i), Val); suffix(i) is i in big-endian bytes without leading zeros, so the
	// generated strings are themselves prefix-related ({1} and {1,0}).
	N      int  `json:"n,omitempty"`
	Spread bool `json:"spread,omitempty"`
	Stop   int  `json:"stop,omitempty"` // foreach: callback returns false at the Stop-th pair (0 = never)
	Idx    int  `json:"idx"`            // which of the two sibling indexes on the shared datastore
}

type Case struct {
	Ops []Op `json:"ops"`
}

// Two indexes share one datastore under prefix-related names, as dspinner's three indexes do.
var indexNames = []string{"/pins/index/ix", "/pins/index/ixa"}

// Seeds of prefix families. base64url encodes 3 input bytes as 4 characters, so strings whose
// length is a multiple of 3 have encodings that are *string prefixes* of the encodings of
// their extensions; other lengths share all but the last character(s).
var seeds = [][]byte{
	[]byte("abc"), []byte("abcdef"), []byte("abcdefghi"), []byte("ab"), []byte("a"), []byte("abcd"),
	[]byte("abc/def"), []byte("/"), []byte("//"), []byte("a/"), []byte("/a"),
	{0}, {0, 0}, {0, 0, 0}, {0, 0, 0, 0}, {0xff}, {0xff, 0xff, 0xff}, {0xfb, 0xff, 0xbf}, {0xfb, 0xff, 0xbf, 0x3e},
	[]byte("uYWJj"), []byte("uYWJjZGVm"), []byte("u"), []byte("uYWJj/uZGVm"), // look like encoded keys / paths
	[]byte("Q"), []byte("QmFoo"), []byte(" "), []byte("ü"), []byte("日本"),
}

func genBytes(t *rapid.T, label string, used [][]byte) []byte {
	switch rapid.IntRange(0, 24).Draw(t, label+"_class") {
	case 0, 1, 2, 7, 8, 9, 10:
		return append([]byte{}, rapid.SampledFrom(seeds).Draw(t, label+"_seed")...)
	case 3, 4, 5, 11, 12, 13, 14, 15, 16:
		// something already used in this case (as key or value), possibly extended or cut
		if len(used) > 0 {
			b := append([]byte{}, rapid.SampledFrom(used).Draw(t, label+"_used")...)
			switch rapid.IntRange(0, 4).Draw(t, label+"_edit") {
			case 0, 1:
				b = append(b, rapid.SliceOfN(rapid.Byte(), 1, 4).Draw(t, label+"_ext")...)
			case 2:
				if len(b) > 1 {
					b = b[:rapid.IntRange(1, len(b)-1).Draw(t, label+"_cut")]
				}
			}
			return b
		}
		return append([]byte{}, rapid.SampledFrom(seeds).Draw(t, label+"_seed")...)
	case 6:
		return []byte{} // empty: must be rejected with the documented error
	default:
		return rapid.SliceOfN(rapid.Byte(), 1, 9).Draw(t, label+"_rnd")
	}
}

// suffix(i), i >= 1: big-endian bytes of i without leading zeros.
func suffix(i int) []byte {
	var b []byte
	for ; i > 0; i >>= 8 {
		b = append([]byte{byte(i)}, b...)
	}
	return b
}

// addnPair is the i-th (1-based) pair added by an addn op.
func addnPair(op Op, i int) (key, val []byte) {
	key, val = append([]byte{}, op.Key...), append([]byte{}, op.Val...)
	if op.Spread {
		return append(key, suffix(i)...), val
	}
	return key, append(val, suffix(i)...)
}

// Sizes of one bulk addition: around powers of two and round numbers (where an implementation
// that works in batches, pages or size classes would change behaviour), small, and a few large.
var bulkSizes = []int{4, 8, 10, 16, 20, 32, 50, 64, 100, 128}

func genBulkN(t *rapid.T) int {
	switch rapid.IntRange(0, 9).Draw(t, "bulk_class") {
	case 0, 1, 2, 3, 4, 5:
		return rapid.SampledFrom(bulkSizes).Draw(t, "bulk_size") + rapid.IntRange(-1, 1).Draw(t, "bulk_off")
	case 6, 7, 8:
		return rapid.IntRange(1, 80).Draw(t, "bulk_n")
	default:
		return rapid.IntRange(81, kit.Scale(200, 1100)).Draw(t, "bulk_big")
	}
}

var plainKinds = []string{"add", "add", "add", "add", "add", "del", "del", "delkey", "delkey", "delall", "search", "search", "hasvalue", "hasany", "foreach", "foreach"}

// In a bulk-shaped case (about 1 in 20) some ops add many pairs at once - many values under one key,
// or one value under many keys - and the bulk deletes are frequent and aimed at those keys, so
// that DeleteKey / DeleteAll / Search / ForEach meet keys and indexes with tens to hundreds of
// entries. The other cases keep the small mixed histories.
var bulkKinds = []string{"addn", "addn", "add", "add", "add", "del", "delkey", "delkey", "delkey", "delall!", "delall!", "search", "search", "hasvalue", "hasany", "foreach", "foreach"}

func gen(t *rapid.T) Case {
	var c Case
	var used [][]byte
	var added [][2][]byte // pairs added so far (generator-side; may have been deleted again)
	var bulkKeys [][]byte // keys that got many values from an addn
	n := rapid.IntRange(1, 40).Draw(t, "nops")
	kinds := plainKinds
	if rapid.IntRange(0, 9).Draw(t, "shape") == 5 { // not 0: rapid favours the ends of a range; observed share ~5 %
		kinds = bulkKinds
	}
	for i := 0; i < n; i++ {
		op := Op{Kind: rapid.SampledFrom(kinds).Draw(t, "kind")}
		op.Idx = 0
		if rapid.IntRange(0, 4).Draw(t, "idx") == 0 {
			op.Idx = 1
		}
		if op.Kind == "delkey" && len(bulkKeys) > 0 && rapid.Bool().Draw(t, "bulkkey") {
			op.Key = append([]byte{}, rapid.SampledFrom(bulkKeys).Draw(t, "bkey")...)
			used = append(used, op.Key)
			c.Ops = append(c.Ops, op)
			continue
		}
		switch op.Kind {
		case "delall!":
			op.Kind = "delall"
		case "addn":
			op.Key = genBytes(t, "key", used)
			op.Val = genBytes(t, "val", used)
			if len(op.Key) == 0 {
				op.Key = []byte("abc")
			}
			if len(op.Val) == 0 {
				op.Val = []byte("abc")
			}
			op.N = genBulkN(t)
			op.Spread = rapid.IntRange(0, 2).Draw(t, "spread") == 0
			// later ops can aim at the first, the last and one more of the added pairs
			for _, j := range []int{1, rapid.IntRange(1, op.N).Draw(t, "pick"), op.N} {
				k, v := addnPair(op, j)
				added = append(added, [2][]byte{k, v})
			}
			if !op.Spread {
				bulkKeys = append(bulkKeys, op.Key)
			}
		case "add", "del", "hasvalue":
			if op.Kind != "add" && len(added) > 0 && rapid.IntRange(0, 2).Draw(t, "existing") != 0 {
				// aim at a pair that was added before
				p := rapid.SampledFrom(added).Draw(t, "pair")
				op.Key, op.Val = append([]byte{}, p[0]...), append([]byte{}, p[1]...)
				break
			}
			op.Key = genBytes(t, "key", used)
			op.Val = genBytes(t, "val", used)
			if op.Kind == "add" && len(op.Key) > 0 && len(op.Val) > 0 {
				added = append(added, [2][]byte{op.Key, op.Val})
			}
		case "delkey", "search":
			if len(added) > 0 && rapid.Bool().Draw(t, "existing") {
				op.Key = append([]byte{}, rapid.SampledFrom(added).Draw(t, "pair")[0]...)
			} else {
				op.Key = genBytes(t, "key", used)
			}
		case "hasany", "foreach":
			if rapid.IntRange(0, 2).Draw(t, "all") == 0 {
				op.Key = []byte{}
			} else if len(added) > 0 && rapid.Bool().Draw(t, "existing") {
				op.Key = append([]byte{}, rapid.SampledFrom(added).Draw(t, "pair")[0]...)
			} else {
				op.Key = genBytes(t, "key", used)
			}
			if op.Kind == "foreach" {
				op.Stop = rapid.SampledFrom([]int{0, 0, 1, 2, 3}).Draw(t, "stop")
			}
		case "delall":
			if rapid.IntRange(0, 3).Draw(t, "really") != 0 {
				// delete-all is kept rarer than the other ops so that state accumulates
				op.Kind = "search"
				op.Key = genBytes(t, "key", used)
			}
		}
		if len(op.Key) > 0 {
			used = append(used, op.Key)
		}
		if len(op.Val) > 0 {
			used = append(used, op.Val)
		}
		c.Ops = append(c.Ops, op)
	}
	return c
}

// model: key -> set of values
type multimap map[string]map[string]bool

func (m multimap) pairs(key string) map[[2]string]bool {
	out := map[[2]string]bool{}
	for k, vs := range m {
		if key != "" && k != key {
			continue
		}
		for v := range vs {
			out[[2]string{k, v}] = true
		}
	}
	return out
}

func (m multimap) total() int {
	n := 0
	for _, vs := range m {
		n += len(vs)
	}
	return n
}

// sizeClass buckets the number of pairs removed by one bulk delete (evidence histogram).
func sizeClass(n int) string {
	for _, b := range []int{4, 16, 64, 256} {
		if n <= b {
			return fmt.Sprintf("<=%d", b)
		}
	}
	return ">256"
}

func eqStrs(a, b []string) bool {
	if len(a) != len(b) {
		return false
	}
	for i := range a {
		if a[i] != b[i] {
			return false
		}
	}
	return true
}

func sortedVals(vs map[string]bool) []string {
	out := make([]string, 0, len(vs))
	for v := range vs {
		out = append(out, v)
	}
	sort.Strings(out)
	return out
}

func run(c Case) kit.Result {
	ctx := context.Background()
	store := dssync.MutexWrap(ds.NewMapDatastore())
	idx := []dsindex.Indexer{dsindex.New(store, ds.NewKey(indexNames[0])), dsindex.New(store, ds.NewKey(indexNames[1]))}
	models := []multimap{{}, {}}
	universe := []map[string]bool{{}, {}} // every key ever named per index

	// audit compares complete enumeration, per-key search and membership with the model
	audit := func(when string) error {
		for x := range idx {
			m := models[x]
			got := map[[2]string]int{}
			err := idx[x].ForEach(ctx, "", func(k, v string) bool {
				got[[2]string{k, v}]++
				return true
			})
			if err != nil {
				return fmt.Errorf("%s: index %d ForEach(\"\"): %v", when, x, err)
			}
			want := m.pairs("")
			for p, n := range got {
				if !want[p] {
					return fmt.Errorf("%s: index %d enumerates pair (%x,%x) that the multimap does not hold", when, x, p[0], p[1])
				}
				if n != 1 {
					return fmt.Errorf("%s: index %d enumerates pair (%x,%x) %d times", when, x, p[0], p[1], n)
				}
			}
			for p := range want {
				if got[p] == 0 {
					return fmt.Errorf("%s: index %d does not enumerate pair (%x,%x)", when, x, p[0], p[1])
				}
			}
			any, err := idx[x].HasAny(ctx, "")
			if err != nil {
				return fmt.Errorf("%s: index %d HasAny(\"\"): %v", when, x, err)
			}
			if any != (m.total() > 0) {
				return fmt.Errorf("%s: index %d HasAny(\"\") = %v with %d pairs in the multimap", when, x, any, m.total())
			}
			keys := make([]string, 0, len(universe[x]))
			for k := range universe[x] {
				keys = append(keys, k)
			}
			sort.Strings(keys)
			for _, k := range keys {
				vals, err := idx[x].Search(ctx, k)
				if err != nil {
					return fmt.Errorf("%s: index %d Search(%x): %v", when, x, k, err)
				}
				sort.Strings(vals)
				want := sortedVals(m[k])
				if !eqStrs(vals, want) {
					return fmt.Errorf("%s: index %d Search(%x) = %x, multimap holds %x", when, x, k, vals, want)
				}
				any, err := idx[x].HasAny(ctx, k)
				if err != nil {
					return fmt.Errorf("%s: index %d HasAny(%x): %v", when, x, k, err)
				}
				if any != (len(m[k]) > 0) {
					return fmt.Errorf("%s: index %d HasAny(%x) = %v, multimap holds %d values", when, x, k, any, len(m[k]))
				}
			}
		}
		return nil
	}

	prefixRelated := false
	classes := map[string]bool{}
	for i, op := range c.Ops {
		if op.Idx < 0 || op.Idx > 1 {
			return kit.Result{Classes: []string{"invalid-case"}}
		}
		x, m := idx[op.Idx], models[op.Idx]
		key, val := string(op.Key), string(op.Val)
		when := fmt.Sprintf("op %d %s(idx %d, key %x, val %x)", i, op.Kind, op.Idx, key, val)
		if key != "" {
			universe[op.Idx][key] = true
		}
		// non-trivial: a read or delete-by-key on a key that is a proper byte prefix of another
		// live key, or whose extension is live (either direction)
		if key != "" {
			switch op.Kind {
			case "search", "delkey", "hasany", "foreach":
				for k := range m {
					if k != key && len(m[k]) > 0 && (strings.HasPrefix(k, key) || (strings.HasPrefix(key, k) && len(m[key]) > 0)) {
						prefixRelated = true
						classes["prefix-related:"+op.Kind] = true
					}
				}
			}
		}
		wantEmptyErr := func(err error, needVal bool) error {
			// documented: empty key -> ErrEmptyKey, empty value -> ErrEmptyValue
			if key == "" {
				if !errors.Is(err, dsindex.ErrEmptyKey) {
					return fmt.Errorf("%s: empty key, got error %v, want ErrEmptyKey", when, err)
				}
				return nil
			}
			if needVal && val == "" {
				if !errors.Is(err, dsindex.ErrEmptyValue) {
					return fmt.Errorf("%s: empty value, got error %v, want ErrEmptyValue", when, err)
				}
				return nil
			}
			return errors.New("internal")
		}
		switch op.Kind {
		case "add":
			err := x.Add(ctx, key, val)
			if key == "" || val == "" {
				if e := wantEmptyErr(err, true); e != nil {
					return kit.Result{Err: e}
				}
				classes["rejected-empty"] = true
				break
			}
			if err != nil {
				return kit.Fail("%s: %v", when, err)
			}
			if m[key] == nil {
				m[key] = map[string]bool{}
			}
			m[key][val] = true
		case "addn":
			if op.N < 1 || op.N > 5000 {
				return kit.Result{Classes: []string{"invalid-case"}}
			}
			for j := 1; j <= op.N; j++ {
				kb, vb := addnPair(op, j)
				k, v := string(kb), string(vb)
				err := x.Add(ctx, k, v)
				if k == "" || v == "" {
					want := dsindex.ErrEmptyKey
					if k != "" {
						want = dsindex.ErrEmptyValue
					}
					if !errors.Is(err, want) {
						return kit.Fail("%s: Add #%d (key %x, val %x): got error %v, want %v", when, j, k, v, err, want)
					}
					continue
				}
				if err != nil {
					return kit.Fail("%s: Add #%d (key %x, val %x): %v", when, j, k, v, err)
				}
				if m[k] == nil {
					m[k] = map[string]bool{}
				}
				m[k][v] = true
				// Search/HasAny of the first, middle and last key are audited from now on;
				// the others only through the complete enumeration
				if j == 1 || j == op.N || j == (op.N+1)/2 {
					universe[op.Idx][k] = true
				}
			}
			classes["addn"] = true
		case "del":
			err := x.Delete(ctx, key, val)
			if key == "" || val == "" {
				if e := wantEmptyErr(err, true); e != nil {
					return kit.Result{Err: e}
				}
				classes["rejected-empty"] = true
				break
			}
			if err != nil {
				return kit.Fail("%s: %v", when, err)
			}
			if m[key][val] {
				classes["del-present"] = true
			}
			delete(m[key], val)
			if len(m[key]) == 0 {
				delete(m, key)
			}
		case "delkey":
			n, err := x.DeleteKey(ctx, key)
			if key == "" {
				if e := wantEmptyErr(err, false); e != nil {
					return kit.Result{Err: e}
				}
				classes["rejected-empty"] = true
				break
			}
			if err != nil {
				return kit.Fail("%s: %v", when, err)
			}
			if n != len(m[key]) {
				return kit.Fail("%s: reported %d deleted values, the key held %d", when, n, len(m[key]))
			}
			if n > 0 {
				classes["delkey-present"] = true
				classes["delkey-size:"+sizeClass(n)] = true
			}
			delete(m, key)
		case "delall":
			n, err := x.DeleteAll(ctx)
			if err != nil {
				return kit.Fail("%s: %v", when, err)
			}
			if n != m.total() {
				return kit.Fail("%s: reported %d deleted values, the index held %d", when, n, m.total())
			}
			for k := range m {
				delete(m, k)
			}
			classes["delall"] = true
			if n > 0 {
				classes["delall-size:"+sizeClass(n)] = true
			}
		case "search":
			vals, err := x.Search(ctx, key)
			if key == "" {
				if e := wantEmptyErr(err, false); e != nil {
					return kit.Result{Err: e}
				}
				classes["rejected-empty"] = true
				break
			}
			if err != nil {
				return kit.Fail("%s: %v", when, err)
			}
			sort.Strings(vals)
			want := sortedVals(m[key])
			if !eqStrs(vals, want) {
				return kit.Fail("%s = %x, multimap holds %x", when, vals, want)
			}
		case "hasvalue":
			ok, err := x.HasValue(ctx, key, val)
			if key == "" || val == "" {
				if e := wantEmptyErr(err, true); e != nil {
					return kit.Result{Err: e}
				}
				classes["rejected-empty"] = true
				break
			}
			if err != nil {
				return kit.Fail("%s: %v", when, err)
			}
			if ok != m[key][val] {
				return kit.Fail("%s = %v, multimap says %v", when, ok, m[key][val])
			}
		case "hasany":
			ok, err := x.HasAny(ctx, key)
			if err != nil {
				return kit.Fail("%s: %v", when, err)
			}
			want := len(m[key]) > 0
			if key == "" {
				want = m.total() > 0
			}
			if ok != want {
				return kit.Fail("%s = %v, multimap says %v", when, ok, want)
			}
		case "foreach":
			want := m.pairs(key)
			seen := map[[2]string]bool{}
			calls := 0
			var bad error
			err := x.ForEach(ctx, key, func(k, v string) bool {
				calls++
				p := [2]string{k, v}
				if !want[p] && bad == nil {
					bad = fmt.Errorf("%s: callback got pair (%x,%x) that the multimap does not hold under this key", when, k, v)
				}
				if seen[p] && bad == nil {
					bad = fmt.Errorf("%s: callback got pair (%x,%x) twice", when, k, v)
				}
				seen[p] = true
				return !(op.Stop > 0 && calls >= op.Stop)
			})
			if err != nil {
				return kit.Fail("%s: %v", when, err)
			}
			if bad != nil {
				return kit.Result{Err: bad}
			}
			wantCalls := len(want)
			if op.Stop > 0 && op.Stop < wantCalls {
				wantCalls = op.Stop
				classes["foreach-stopped-early"] = true
			}
			if calls != wantCalls {
				return kit.Fail("%s: %d callbacks (stop after %d), multimap holds %d pairs there", when, calls, op.Stop, len(want))
			}
		default:
			return kit.Result{Classes: []string{"invalid-case"}}
		}
		if err := audit("after " + when); err != nil {
			return kit.Result{Err: err}
		}
	}
	var cls []string
	for k := range classes {
		cls = append(cls, k)
	}
	sort.Strings(cls)
	if len(models[1]) > 0 && len(models[0]) > 0 {
		cls = append(cls, "both-indexes-live")
	}
	return kit.Result{NonTrivial: prefixRelated, Classes: cls}
}

var spec = kit.Spec[Case]{
	Prop: "C24", Name: "main",
	Rule:  "1..40 Add/AddN/Delete/DeleteKey/DeleteAll/Search/HasValue/HasAny/ForEach(key|all, early stop) calls on two sibling dsindex indexes over one map datastore; keys and values are arbitrary byte strings from prefix families (3-byte aligned so base64url encodings are string prefixes), '/' and NUL bytes, strings that look like encoded keys, extensions/truncations of strings already used, empty (documented errors); about 1 case in 20 is bulk-shaped: AddN ops add 1..200 (thorough 1100) pairs at once (sizes around powers of two and round numbers +-1) as many values of one key or one value of many keys, with suffixes that are prefix-related, and DeleteKey/DeleteAll are frequent and aimed at those keys; every result and, after every call, full enumeration + Search/HasAny of every key ever named are compared with a multimap model; non-trivial = a Search/DeleteKey/HasAny/ForEach on a key while another live key is a proper byte-prefix extension of it (or it extends a live key)",
	Quick: 4000, Thorough: 20000,
	Gen: gen, Run: run,
}

func TestProp(t *testing.T) { kit.All(t, spec) }
