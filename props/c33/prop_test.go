package c33

// C33 - Path resolution follows UnixFS names, including sharded directories.
//
// A random UnixFS tree (depth <= 4) mixing basic directories, HAMT directories of fanout
// 8..256 and dynamic directories (MaxLinks-triggered conversion) is built with boxo's own
// directory builders into an in-memory block service. The reference model is the tree
// itself: for every directory the map name -> CID of the child node handed to AddChild.
// The resolver is wired exactly as gateway.NewBlocksBackend does it (blockservice fetcher,
// dag-pb prototype chooser, unixfsnode.Reify). Every existing path must resolve to the
// model's CID with an empty remainder; a path whose j-th segment does not exist in the
// directory reached so far must fail with *resolver.ErrNoLink naming that segment.

import (
	"context"
	"errors"
	"fmt"
	"strconv"
	"strings"
	"testing"
	"testing/synctest"
	"time"

	"github.com/ipfs/boxo/blockservice"
	"github.com/ipfs/boxo/blockstore"
	"github.com/ipfs/boxo/exchange"
	offline "github.com/ipfs/boxo/exchange/offline"
	bsfetcher "github.com/ipfs/boxo/fetcher/impl/blockservice"
	"github.com/ipfs/boxo/ipld/merkledag"
	ft "github.com/ipfs/boxo/ipld/unixfs"
	uio "github.com/ipfs/boxo/ipld/unixfs/io"
	"github.com/ipfs/boxo/path"
	"github.com/ipfs/boxo/path/resolver"
	blocks "github.com/ipfs/go-block-format"
	"github.com/ipfs/go-cid"
	ds "github.com/ipfs/go-datastore"
	dssync "github.com/ipfs/go-datastore/sync"
	format "github.com/ipfs/go-ipld-format"
	"github.com/ipfs/go-unixfsnode"
	dagpb "github.com/ipld/go-codec-dagpb"
	cidlink "github.com/ipld/go-ipld-prime/linking/cid"
	"pgregory.net/rapid"
	"verif/kit"
)

func TestMain(m *testing.M) { kit.Main(m) }

// hostT is the *testing.T that synctest.Test needs (slow block sources run in a bubble with
// virtual time); set by TestProp before any case runs.
var hostT *testing.T

// Node is one node of the generated tree.
type Node struct {
	Kind     string   `json:"kind"`                // raw | file | bigfile | symlink | basic | hamt | dyn
	Seed     int      `json:"seed,omitempty"`      // leaf content seed
	Width    int      `json:"width,omitempty"`     // hamt / dyn: HAMT fanout
	MaxLinks int      `json:"max_links,omitempty"` // dyn: basic -> HAMT conversion above this many links
	Names    []string `json:"names,omitempty"`     // explicit entries ...
	Kids     []*Node  `json:"kids,omitempty"`      // ... and their nodes
	Bulk     int      `json:"bulk,omitempty"`      // additional small files named BulkPfx+i
	BulkPfx  string   `json:"bulk_pfx,omitempty"`
}

func (n *Node) isDir() bool { return n.Kind == "basic" || n.Kind == "hamt" || n.Kind == "dyn" }

type entry struct {
	name string
	node *Node
}

// entries lists the directory's entries: explicit ones first (first occurrence of a name
// wins), then the bulk files whose names are still free.
func (n *Node) entries() []entry {
	if !n.isDir() {
		return nil
	}
	seen := map[string]bool{}
	var out []entry
	for i, nm := range n.Names {
		if i >= len(n.Kids) || n.Kids[i] == nil || !validName(nm) || seen[nm] {
			continue
		}
		seen[nm] = true
		out = append(out, entry{nm, n.Kids[i]})
	}
	for i := 0; i < n.Bulk; i++ {
		nm := n.BulkPfx + strconv.Itoa(i)
		if !validName(nm) || seen[nm] {
			continue
		}
		seen[nm] = true
		out = append(out, entry{nm, &Node{Kind: "raw", Seed: 1000 + i}})
	}
	return out
}

func validName(s string) bool {
	return s != "" && s != "." && s != ".." && !strings.Contains(s, "/")
}

// PathSpec selects a path in the tree by entry indices, optionally broken at one position.
type PathSpec struct {
	Steps  []int    `json:"steps"`          // index into entries() at each level (mod len)
	MissAt int      `json:"miss_at"`        // -1: the path exists; else segment MissAt is replaced by Miss
	Miss   string   `json:"miss,omitempty"` // name that is not in the directory
	Tail   []string `json:"tail,omitempty"` // segments after the missing one
	// Form is the way the path is written. Every form denotes the same segments (path.NewPath
	// cleans the string with gopath.Clean but keeps one trailing slash):
	//   ""        path.Join(path.FromCid(root), segs...)
	//   "slash"   path.NewPath("/ipfs/<root>/a/b/")      trailing slash, as directory URLs have
	//   "dslash"  path.NewPath("/ipfs/<root>//a//b/")    doubled separators and trailing slash
	//   "dot"     path.NewPath("/ipfs/<root>/./a/./b")   "." segments
	Form string `json:"form,omitempty"`
}

type Case struct {
	CidV1 bool `json:"cid_v1"`
	// Source is the kind of block source behind the resolver's block service:
	//   ""            plain in-memory map blockstore + offline exchange (ignores contexts)
	//   "strict-bs"   all blocks local, but the blockstore refuses to work on a context that is
	//                 already done (as context-aware datastores do)
	//   "strict-exch" nothing local: every block comes through a session exchange that refuses
	//                 to work once the call's or the session's context is done (as bitswap
	//                 does); the local cache blockstore is context-strict too
	//   "slow-bs"     as strict-bs, and every block read takes DelayMs of (virtual) time
	//   "slow-exch"   as strict-exch, and every block the exchange delivers takes DelayMs
	// The caller's context stays alive for the whole case and the latency of a whole resolution
	// (a few dozen block loads of at most 100 ms) stays far below the resolver's own one-minute
	// session bound, so none of this may change any result.
	Source  string     `json:"source,omitempty"`
	DelayMs int        `json:"delay_ms,omitempty"` // slow-*: latency per block (clamped to 1..100)
	Root    *Node      `json:"root"`
	Paths   []PathSpec `json:"paths"`
}

// ---------------------------------------------------------------------------
// generator

var fanouts = []int{8, 8, 8, 16, 16, 32, 64, 128, 256}

func genLeaf(t *rapid.T) *Node {
	k := rapid.SampledFrom([]string{"raw", "raw", "file", "file", "bigfile", "symlink"}).Draw(t, "leaf")
	return &Node{Kind: k, Seed: rapid.IntRange(0, 50).Draw(t, "seed")}
}

func genNode(t *rapid.T, depth int, budget *int) *Node {
	if depth >= 4 || *budget <= 0 || (depth > 0 && rapid.IntRange(0, 9).Draw(t, "leaf?") < 4) {
		return genLeaf(t)
	}
	*budget--
	n := &Node{}
	n.Kind = rapid.SampledFrom([]string{"basic", "basic", "hamt", "hamt", "hamt", "dyn"}).Draw(t, "dirkind")
	switch n.Kind {
	case "hamt":
		n.Width = rapid.SampledFrom(fanouts).Draw(t, "fanout")
	case "dyn":
		n.Width = rapid.SampledFrom(fanouts).Draw(t, "fanout")
		n.MaxLinks = rapid.IntRange(1, 12).Draw(t, "maxlinks")
	}
	ne := rapid.SampledFrom([]int{0, 1, 2, 2, 3, 3, 4}).Draw(t, "nexplicit")
	if ne > 0 {
		n.Names = rapid.SliceOfNDistinct(kit.Names(), ne, ne, rapid.ID[string]).Draw(t, "names")
		for i := 0; i < ne; i++ {
			n.Kids = append(n.Kids, genNode(t, depth+1, budget))
		}
	}
	bulkMax := kit.Scale(120, 400)
	switch rapid.IntRange(0, 5).Draw(t, "bulkclass") {
	case 0:
	case 1:
		n.Bulk = rapid.IntRange(1, 4).Draw(t, "bulk")
	case 2, 3:
		n.Bulk = rapid.IntRange(5, 30).Draw(t, "bulk")
	default:
		n.Bulk = rapid.IntRange(20, bulkMax).Draw(t, "bulk")
	}
	if n.Kind == "basic" && n.Bulk > 40 {
		n.Bulk = 40
	}
	n.BulkPfx = rapid.SampledFrom([]string{"n", "f-", "日", "file ", "%"}).Draw(t, "bulkpfx")
	return n
}

func genMiss(t *rapid.T, dir *Node) string {
	es := dir.entries()
	has := map[string]bool{}
	for _, e := range es {
		has[e.name] = true
	}
	var cand string
	cls := rapid.IntRange(0, 5).Draw(t, "missclass")
	switch {
	case cls <= 1 || len(es) == 0:
		cand = kit.Names().Draw(t, "missname")
	case cls == 2:
		cand = es[rapid.IntRange(0, len(es)-1).Draw(t, "near")].name + "x"
	case cls == 3:
		nm := es[rapid.IntRange(0, len(es)-1).Draw(t, "near")].name
		rs := []rune(nm)
		cand = string(rs[:len(rs)-1])
	case cls == 4:
		cand = dir.BulkPfx + strconv.Itoa(dir.Bulk+rapid.IntRange(0, 3).Draw(t, "beyond"))
	default:
		nm := es[rapid.IntRange(0, len(es)-1).Draw(t, "near")].name
		cand = strings.ToUpper(nm)
		if cand == nm {
			cand = strings.ToLower(nm)
		}
	}
	return freeName(cand, has)
}

// freeName turns cand into a valid name that is not in has (deterministically).
func freeName(cand string, has map[string]bool) string {
	if !validName(cand) {
		cand = "missing"
	}
	for has[cand] {
		cand += "~"
	}
	return cand
}

func genPath(t *rapid.T, root *Node) PathSpec {
	p := PathSpec{MissAt: -1}
	p.Form = rapid.SampledFrom([]string{"", "", "", "slash", "slash", "dslash", "dot"}).Draw(t, "form")
	cur := root
	dirs := []*Node{} // directory at each level that was entered
	for cur.isDir() {
		es := cur.entries()
		if len(es) == 0 {
			break
		}
		if len(p.Steps) > 0 && rapid.IntRange(0, 5).Draw(t, "stop") == 0 {
			break
		}
		dirs = append(dirs, cur)
		// bias towards explicit entries (sub-directories) but also reach the bulk files
		var i int
		if ne := len(cur.Names); ne > 0 && ne < len(es) && rapid.Bool().Draw(t, "explicit") {
			i = rapid.IntRange(0, ne-1).Draw(t, "step")
		} else {
			i = rapid.IntRange(0, len(es)-1).Draw(t, "step")
		}
		p.Steps = append(p.Steps, i)
		cur = es[i].node
	}
	if rapid.IntRange(0, 9).Draw(t, "missing?") < 4 {
		// positions whose parent is a directory: every entered level, plus one past the end
		// when the walk ended on a directory
		maxAt := len(p.Steps) - 1
		if cur.isDir() {
			maxAt = len(p.Steps)
		}
		if maxAt >= 0 {
			at := rapid.IntRange(0, maxAt).Draw(t, "missat")
			var dir *Node
			if at < len(dirs) {
				dir = dirs[at]
			} else {
				dir = cur
			}
			p.MissAt = at
			p.Miss = genMiss(t, dir)
			p.Steps = p.Steps[:at]
			nt := rapid.SampledFrom([]int{0, 0, 1, 2}).Draw(t, "ntail")
			for i := 0; i < nt; i++ {
				p.Tail = append(p.Tail, kit.Names().Draw(t, "tail"))
			}
		}
	}
	return p
}

func gen(t *rapid.T) Case {
	c := Case{CidV1: rapid.Bool().Draw(t, "cidv1")}
	c.Source = rapid.SampledFrom([]string{"", "strict-bs", "strict-bs", "strict-exch", "strict-exch", "slow-bs", "slow-exch"}).Draw(t, "source")
	if strings.HasPrefix(c.Source, "slow-") {
		c.DelayMs = rapid.SampledFrom([]int{1, 5, 20, 50, 100, 100}).Draw(t, "delayms")
	}
	budget := kit.Scale(7, 12)
	// the root is always a directory
	c.Root = genNode(t, 0, &budget)
	np := rapid.IntRange(1, 8).Draw(t, "npaths")
	for i := 0; i < np; i++ {
		c.Paths = append(c.Paths, genPath(t, c.Root))
	}
	return c
}

// ---------------------------------------------------------------------------
// building

type built struct {
	cid    cid.Cid
	kids   map[string]*built // directories: model name -> child
	order  []string
	hamt   bool // the directory's root block is a HAMT shard
	levels int  // HAMT: 1 = single shard, 2 = at least one sub-shard below the root
}

type builder struct {
	ctx   context.Context
	dserv format.DAGService
	v1    bool
	nblk  int
}

func (b *builder) cidBuilder() cid.Builder {
	if b.v1 {
		return merkledag.V1CidPrefix()
	}
	return merkledag.V0CidPrefix()
}

func leafBytes(seed, n int) []byte {
	out := make([]byte, n)
	s := uint64(seed)*2654435761 + 12345
	for i := range out {
		s ^= s << 13
		s ^= s >> 7
		s ^= s << 17
		out[i] = byte(s >> 24)
	}
	return out
}

func (b *builder) add(nd format.Node) error {
	b.nblk++
	return b.dserv.Add(b.ctx, nd)
}

func (b *builder) build(n *Node) (format.Node, *built, error) {
	switch n.Kind {
	case "raw":
		nd, err := merkledag.NewRawNodeWPrefix(leafBytes(n.Seed, 1+n.Seed%40), cid.Prefix{Version: 1, Codec: cid.Raw, MhType: 0x12, MhLength: 32})
		if err != nil {
			return nil, nil, err
		}
		return nd, &built{cid: nd.Cid()}, b.add(nd)
	case "file":
		data := leafBytes(n.Seed, n.Seed%64)
		nd := merkledag.NodeWithData(ft.FilePBData(data, uint64(len(data))))
		nd.SetCidBuilder(b.cidBuilder())
		return nd, &built{cid: nd.Cid()}, b.add(nd)
	case "symlink":
		d, err := ft.SymlinkData("../target" + strconv.Itoa(n.Seed))
		if err != nil {
			return nil, nil, err
		}
		nd := merkledag.NodeWithData(d)
		nd.SetCidBuilder(b.cidBuilder())
		return nd, &built{cid: nd.Cid()}, b.add(nd)
	case "bigfile":
		fsn := ft.NewFSNode(ft.TFile)
		nd := merkledag.NodeWithData(nil)
		nd.SetCidBuilder(b.cidBuilder())
		for i := 0; i < 2; i++ {
			chunk, err := merkledag.NewRawNodeWPrefix(leafBytes(n.Seed*7+i, 20+i), cid.Prefix{Version: 1, Codec: cid.Raw, MhType: 0x12, MhLength: 32})
			if err != nil {
				return nil, nil, err
			}
			if err := b.add(chunk); err != nil {
				return nil, nil, err
			}
			if err := nd.AddNodeLink("", chunk); err != nil {
				return nil, nil, err
			}
			fsn.AddBlockSize(uint64(20 + i))
		}
		d, err := fsn.GetBytes()
		if err != nil {
			return nil, nil, err
		}
		nd.SetData(d)
		return nd, &built{cid: nd.Cid()}, b.add(nd)
	case "basic", "hamt", "dyn":
		var dir uio.Directory
		var err error
		opts := []uio.DirectoryOption{uio.WithCidBuilder(b.cidBuilder())}
		switch n.Kind {
		case "basic":
			dir, err = uio.NewBasicDirectory(b.dserv, opts...)
		case "hamt":
			dir, err = uio.NewHAMTDirectory(b.dserv, 0, append(opts, uio.WithMaxHAMTFanout(n.Width))...)
		default:
			dir, err = uio.NewDirectory(b.dserv, append(opts, uio.WithMaxHAMTFanout(n.Width), uio.WithMaxLinks(n.MaxLinks))...)
		}
		if err != nil {
			return nil, nil, fmt.Errorf("creating %s directory (fanout %d): %w", n.Kind, n.Width, err)
		}
		bt := &built{kids: map[string]*built{}}
		for _, e := range n.entries() {
			cn, cb, err := b.build(e.node)
			if err != nil {
				return nil, nil, err
			}
			if err := dir.AddChild(b.ctx, e.name, cn); err != nil {
				return nil, nil, fmt.Errorf("AddChild(%q) on %s directory: %w", e.name, n.Kind, err)
			}
			bt.kids[e.name] = cb
			bt.order = append(bt.order, e.name)
		}
		nd, err := dir.GetNode()
		if err != nil {
			return nil, nil, err
		}
		if err := b.add(nd); err != nil {
			return nil, nil, err
		}
		bt.cid = nd.Cid()
		// classify by looking at the root block that was produced
		if pn, ok := nd.(*merkledag.ProtoNode); ok {
			if fsn, err := ft.FSNodeFromBytes(pn.Data()); err == nil && fsn.Type() == ft.THAMTShard {
				bt.hamt = true
				bt.levels = 1
				pad := len(fmt.Sprintf("%X", fsn.Fanout()-1))
				for _, l := range pn.Links() {
					if len(l.Name) == pad {
						bt.levels = 2
						break
					}
				}
			}
		}
		return nd, bt, nil
	}
	return nil, nil, fmt.Errorf("malformed case: node kind %q", n.Kind)
}

// ---------------------------------------------------------------------------
// context-strict block sources
//
// Every blockstore / exchange method takes a context and real implementations (bitswap
// sessions, context-aware datastores) return ctx.Err() once it is done. The in-memory map
// datastore never looks at it, which would hide a resolver that keeps using a session whose
// context it has already cancelled while the caller's context is still alive.

//
// The slow variants add latency to every block read: the read returns after `delay` of the
// bubble's virtual time, or earlier with the context's error when a context ends first (as a
// disk or network read does).

type strictBS struct {
	blockstore.Blockstore
	delay time.Duration // > 0: latency of Get
}

// wait lets d pass unless one of the contexts ends first.
func wait(d time.Duration, ctxs ...context.Context) error {
	if d <= 0 {
		return nil
	}
	tm := time.NewTimer(d)
	defer tm.Stop()
	var done2 <-chan struct{}
	if len(ctxs) > 1 && ctxs[1] != nil {
		done2 = ctxs[1].Done()
	}
	select {
	case <-tm.C:
		return nil
	case <-ctxs[0].Done():
		return ctxs[0].Err()
	case <-done2:
		return ctxs[1].Err()
	}
}

func (s strictBS) Has(ctx context.Context, c cid.Cid) (bool, error) {
	if err := ctx.Err(); err != nil {
		return false, err
	}
	return s.Blockstore.Has(ctx, c)
}

func (s strictBS) Get(ctx context.Context, c cid.Cid) (blocks.Block, error) {
	if err := ctx.Err(); err != nil {
		return nil, err
	}
	if err := wait(s.delay, ctx); err != nil {
		return nil, err
	}
	return s.Blockstore.Get(ctx, c)
}

func (s strictBS) GetSize(ctx context.Context, c cid.Cid) (int, error) {
	if err := ctx.Err(); err != nil {
		return 0, err
	}
	return s.Blockstore.GetSize(ctx, c)
}

func (s strictBS) Put(ctx context.Context, b blocks.Block) error {
	if err := ctx.Err(); err != nil {
		return err
	}
	return s.Blockstore.Put(ctx, b)
}

func (s strictBS) PutMany(ctx context.Context, bs []blocks.Block) error {
	if err := ctx.Err(); err != nil {
		return err
	}
	return s.Blockstore.PutMany(ctx, bs)
}

// strictFetcher serves blocks of a "remote" blockstore as long as the context of the call
// and (for sessions) the context the session was created with are alive.
type strictFetcher struct {
	remote blockstore.Blockstore
	sesctx context.Context // nil: not a session
	delay  time.Duration   // > 0: latency of every delivery
}

func (f *strictFetcher) alive(ctx context.Context) error {
	if err := ctx.Err(); err != nil {
		return err
	}
	if f.sesctx != nil {
		return f.sesctx.Err()
	}
	return nil
}

func (f *strictFetcher) GetBlock(ctx context.Context, c cid.Cid) (blocks.Block, error) {
	if err := f.alive(ctx); err != nil {
		return nil, err
	}
	if err := wait(f.delay, ctx, f.sesctx); err != nil {
		return nil, err
	}
	return f.remote.Get(ctx, c)
}

func (f *strictFetcher) GetBlocks(ctx context.Context, cs []cid.Cid) (<-chan blocks.Block, error) {
	out := make(chan blocks.Block, len(cs))
	defer close(out)
	if err := f.alive(ctx); err != nil {
		return out, err
	}
	if err := wait(f.delay, ctx, f.sesctx); err != nil {
		return out, err
	}
	for _, c := range cs {
		if b, err := f.remote.Get(ctx, c); err == nil {
			out <- b
		}
	}
	return out, nil
}

type strictExchange struct {
	strictFetcher
}

func (e *strictExchange) NotifyNewBlocks(ctx context.Context, _ ...blocks.Block) error {
	return ctx.Err()
}
func (e *strictExchange) Close() error { return nil }
func (e *strictExchange) NewSession(ctx context.Context) exchange.Fetcher {
	return &strictFetcher{remote: e.remote, sesctx: ctx, delay: e.delay}
}

var _ exchange.SessionExchange = (*strictExchange)(nil)

// ---------------------------------------------------------------------------
// run

// run executes the case; with a slow block source it does so inside a testing/synctest
// bubble, so that the latency, the resolver's session timeout and the harness budget all run
// on the bubble's virtual clock (deterministic, and no real waiting).
func run(c Case) kit.Result {
	if !strings.HasPrefix(c.Source, "slow-") {
		return runCase(c)
	}
	if hostT == nil {
		return kit.Fail("harness: no host *testing.T for the synctest bubble")
	}
	var res kit.Result
	synctest.Test(hostT, func(*testing.T) { res = runCase(c) })
	return res
}

func runCase(c Case) kit.Result {
	if c.Root == nil || !c.Root.isDir() {
		return kit.Fail("malformed case: root must be a directory")
	}
	ctx, cancel := context.WithTimeout(context.Background(), 5*time.Minute)
	defer cancel()
	delay := time.Duration(min(max(c.DelayMs, 1), 100)) * time.Millisecond

	// the tree is built through a plain block service over the map blockstore `bs`; the
	// resolver reads it through the block source the case asks for
	bs := blockstore.NewBlockstore(dssync.MutexWrap(ds.NewMapDatastore()))
	buildSrv := blockservice.New(bs, offline.Exchange(bs))
	var bsrv blockservice.BlockService
	switch c.Source {
	case "":
		bsrv = buildSrv
	case "strict-bs":
		sbs := strictBS{Blockstore: bs}
		bsrv = blockservice.New(sbs, offline.Exchange(sbs))
	case "strict-exch":
		local := strictBS{Blockstore: blockstore.NewBlockstore(dssync.MutexWrap(ds.NewMapDatastore()))}
		bsrv = blockservice.New(local, &strictExchange{strictFetcher{remote: bs}})
	case "slow-bs":
		sbs := strictBS{Blockstore: bs, delay: delay}
		bsrv = blockservice.New(sbs, offline.Exchange(sbs))
	case "slow-exch":
		local := strictBS{Blockstore: blockstore.NewBlockstore(dssync.MutexWrap(ds.NewMapDatastore()))}
		bsrv = blockservice.New(local, &strictExchange{strictFetcher{remote: bs, delay: delay}})
	default:
		return kit.Fail("malformed case: block source %q", c.Source)
	}
	b := &builder{ctx: ctx, dserv: merkledag.NewDAGService(buildSrv), v1: c.CidV1}
	_, root, err := b.build(c.Root)
	if err != nil {
		// tree construction is the generator's business, not the property's
		return kit.Fail("harness: building the tree failed: %v", err)
	}

	// exactly the wiring of gateway.NewBlocksBackend
	fetcherCfg := bsfetcher.NewFetcherConfig(bsrv)
	fetcherCfg.PrototypeChooser = dagpb.AddSupportToChooser(bsfetcher.DefaultPrototypeChooser)
	r := resolver.NewBasicResolver(fetcherCfg.WithReifier(unixfsnode.Reify))

	nt := false
	var nExist, nMiss, nHamt, nDeep, nForm int
	// Known finding EMPTY-HAMT: a HAMT directory without entries is written by boxo's HAMT
	// without the UnixFS 'Data' (bitfield) field, which the unixfsnode reifier refuses to
	// load. Signature: the node the resolver has to open last is such a directory and the
	// error says exactly that. Remembered and reported at the end so that the other paths
	// of the case are still checked.
	var known error
	isEmptyHamtErr := func(dir *built, err error) bool {
		return dir != nil && dir.hamt && len(dir.order) == 0 && err != nil && strings.Contains(err.Error(), "'Data' field not present")
	}
	maxLevels := 0
	for pi, ps := range c.Paths {
		// walk the model
		cur := root
		var segs []string
		throughHamt, throughDeep := false, false
		for _, st := range ps.Steps {
			if cur.kids == nil || len(cur.order) == 0 {
				return kit.Fail("malformed case: path %d steps into a non-directory or empty directory", pi)
			}
			if st < 0 {
				st = -st
			}
			name := cur.order[st%len(cur.order)]
			if cur.hamt {
				throughHamt = true
				if cur.levels >= 2 {
					throughDeep = true
				}
			}
			segs = append(segs, name)
			cur = cur.kids[name]
		}
		missing := ps.MissAt >= 0
		var missName string
		if missing {
			if cur.kids == nil {
				return kit.Fail("malformed case: path %d has its missing segment under a non-directory", pi)
			}
			has := map[string]bool{}
			for k := range cur.kids {
				has[k] = true
			}
			missName = freeName(ps.Miss, has)
			if cur.hamt {
				throughHamt = true
				if cur.levels >= 2 {
					throughDeep = true
				}
			}
			segs = append(segs, missName)
			for _, tl := range ps.Tail {
				if !validName(tl) {
					tl = "t"
				}
				segs = append(segs, tl)
			}
		}
		var p path.Path
		var err error
		switch ps.Form {
		case "":
			p, err = path.Join(path.FromCid(root.cid), segs...)
		case "slash":
			p, err = path.NewPath(path.FromCid(root.cid).String() + "/" + strings.Join(segs, "/") + "/")
		case "dslash":
			p, err = path.NewPath(path.FromCid(root.cid).String() + "//" + strings.Join(segs, "//") + "/")
		case "dot":
			p, err = path.NewPath(path.FromCid(root.cid).String() + "/./" + strings.Join(segs, "/./"))
		default:
			return kit.Fail("malformed case: path %d has form %q", pi, ps.Form)
		}
		if err != nil {
			return kit.Fail("harness: building the %q path of %q: %v", ps.Form, segs, err)
		}
		ip, err := path.NewImmutablePath(p)
		if err != nil {
			return kit.Fail("harness: NewImmutablePath(%s): %v", p, err)
		}
		if got := ip.Segments()[2:]; strings.Join(got, "/") != strings.Join(segs, "/") || len(got) != len(segs) {
			return kit.Fail("harness: path %q has segments %q, wanted %q", ip, got, segs)
		}
		if ps.Form != "" {
			nForm++
		}

		gotCid, rem, err1 := r.ResolveToLastNode(ctx, ip)
		_, lnk, err2 := r.ResolvePath(ctx, ip)
		if ctx.Err() != nil {
			return kit.Result{} // harness budget exhausted, no verdict
		}
		if !missing {
			nExist++
			if err1 != nil {
				return kit.Fail("path %d: ResolveToLastNode(%s) failed: %v (model: %s)", pi, ip, err1, cur.cid)
			}
			if !gotCid.Equals(cur.cid) {
				return kit.Fail("path %d: ResolveToLastNode(%s) = %s, the entry's CID is %s", pi, ip, gotCid, cur.cid)
			}
			if len(rem) != 0 {
				return kit.Fail("path %d: ResolveToLastNode(%s) left remainder %q", pi, ip, rem)
			}
			if isEmptyHamtErr(cur, err2) {
				if known == nil {
					known = fmt.Errorf("path %d: ResolvePath(%s) to an empty HAMT directory failed: %v", pi, ip, err2)
				}
				continue
			}
			if err2 != nil {
				return kit.Fail("path %d: ResolvePath(%s) failed: %v", pi, ip, err2)
			}
			cl, ok := lnk.(cidlink.Link)
			if !ok || !cl.Cid.Equals(cur.cid) {
				return kit.Fail("path %d: ResolvePath(%s) link = %v, the entry's CID is %s", pi, ip, lnk, cur.cid)
			}
		} else {
			nMiss++
			if err1 == nil {
				return kit.Fail("path %d: ResolveToLastNode(%s) = %s although %q does not exist", pi, ip, gotCid, missName)
			}
			if isEmptyHamtErr(cur, err1) && err2 != nil {
				if known == nil {
					known = fmt.Errorf("path %d: ResolveToLastNode(%s): want a no-link error for %q under an empty HAMT directory, got %v", pi, ip, missName, err1)
				}
				continue
			}
			var nl *resolver.ErrNoLink
			if !errors.As(err1, &nl) {
				return kit.Fail("path %d: ResolveToLastNode(%s): want a no-link error for %q, got %T: %v", pi, ip, missName, err1, err1)
			}
			if nl.Name != missName {
				return kit.Fail("path %d: ResolveToLastNode(%s): no-link error names %q, the missing segment is %q", pi, ip, nl.Name, missName)
			}
			if !strings.Contains(err1.Error(), "no link named") {
				return kit.Fail("path %d: ResolveToLastNode(%s): error text %q", pi, ip, err1.Error())
			}
			if err2 == nil {
				return kit.Fail("path %d: ResolvePath(%s) succeeded although %q does not exist", pi, ip, missName)
			}
		}
		if throughHamt {
			nHamt++
		}
		if throughDeep {
			nDeep++
			nt = true
		}
	}
	if known != nil {
		return kit.Result{Err: known, Known: "EMPTY-HAMT"}
	}
	var walk func(*built, int)
	nHamtDirs, nBasicDirs, depth := 0, 0, 0
	walk = func(x *built, d int) {
		if x.kids == nil {
			return
		}
		if d > depth {
			depth = d
		}
		if x.hamt {
			nHamtDirs++
			if x.levels > maxLevels {
				maxLevels = x.levels
			}
		} else {
			nBasicDirs++
		}
		for _, k := range x.order {
			walk(x.kids[k], d+1)
		}
	}
	walk(root, 1)
	cls := []string{fmt.Sprintf("dirdepth:%d", depth)}
	if c.Source == "" {
		cls = append(cls, "source:plain")
	} else {
		cls = append(cls, "source:"+c.Source)
		if nDeep > 0 {
			cls = append(cls, "multilevel-hamt+"+c.Source)
		}
	}
	if nHamtDirs > 0 && nBasicDirs > 0 {
		cls = append(cls, "mixed-dirs")
	}
	if nHamtDirs > 0 {
		cls = append(cls, fmt.Sprintf("hamt-levels:%d", maxLevels))
	}
	if nMiss > 0 {
		cls = append(cls, "missing")
	}
	if nExist > 0 {
		cls = append(cls, "existing")
	}
	if nForm > 0 {
		cls = append(cls, "path-written-uncleaned")
	}
	if nHamt > 0 {
		cls = append(cls, "path-through-hamt")
	}
	if nDeep > 0 {
		cls = append(cls, "path-through-multilevel-hamt")
	}
	if c.Root.Kind == "dyn" {
		if root.hamt {
			cls = append(cls, "dyn-root:hamt")
		} else {
			cls = append(cls, "dyn-root:basic")
		}
	}
	return kit.Result{NonTrivial: nt, Classes: cls}
}

func sample(c Case) any {
	var count func(n *Node) (dirs, ents int)
	count = func(n *Node) (int, int) {
		if n == nil || !n.isDir() {
			return 0, 0
		}
		d, e := 1, 0
		for _, x := range n.entries() {
			e++
			dd, ee := count(x.node)
			d += dd
			e += ee
		}
		return d, e
	}
	d, e := count(c.Root)
	return map[string]any{"cid_v1": c.CidV1, "source": c.Source, "root_kind": c.Root.Kind, "root_fanout": c.Root.Width, "dirs": d, "entries": e, "paths": c.Paths}
}

var spec = kit.Spec[Case]{
	Prop: "C33", Name: "main",
	Rule:  "random UnixFS tree (dir depth <= 4; basic, HAMT fanout 8..256, MaxLinks-converted dynamic dirs; 0..400 entries per dir; raw/file/multi-chunk/symlink leaves; CIDv0 or v1) built into an in-memory block service and read back through a plain, a context-strict local, or a context-strict remote (session exchange) block source, the latter two also with 1-100 ms virtual latency per block (synctest bubble), 1-8 paths per tree (existing, or broken at any position by an absent name incl. near-miss names, with optional trailing segments; written via path.Join or as a NewPath string with trailing slash / doubled slashes / '.' segments) resolved by the gateway's resolver wiring; non-trivial = a resolved path crosses a HAMT directory with >= 2 shard levels",
	Quick: 1000, Thorough: 6000,
	Gen: gen, Run: run, Sample: sample,
}

func TestProp(t *testing.T) {
	hostT = t
	kit.All(t, spec)
}
