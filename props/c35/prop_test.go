package c35

import (
	"context"
	"errors"
	"fmt"
	"sort"
	"strings"
	"testing"
	"testing/synctest"
	"time"

	"github.com/ipfs/boxo/bitswap/client/verifbridge"
	bsmsg "github.com/ipfs/boxo/bitswap/message"
	pb "github.com/ipfs/boxo/bitswap/message/pb"
	bsnet "github.com/ipfs/boxo/bitswap/network"
	cid "github.com/ipfs/go-cid"
	peer "github.com/libp2p/go-libp2p/core/peer"
	"github.com/libp2p/go-libp2p/p2p/protocol/ping"
	mh "github.com/multiformats/go-multihash"
	"pgregory.net/rapid"
	"verif/kit"
)

func TestMain(m *testing.M) { kit.Main(m) }

// bubbleT is the *testing.T under which synctest bubbles are opened (set by TestProp).
var bubbleT *testing.T

// ---------------------------------------------------------------------------
// case

const (
	placeNow  = 0 // executed by the client goroutine while the send loop is parked
	placeSend = 1 // executed inside the fake MessageSender.SendMsg (message in flight)
	placeHook = 2 // executed at hook H2: between the two critical sections of extractOutgoingMessage
)

type Step struct {
	Kind   string `json:"k"`           // wants | bcast | cancel | resp | sleep | rebroadcast | failnext
	Blocks []int  `json:"b,omitempty"` // wants: want-block CIDs
	Keys   []int  `json:"c,omitempty"` // wants: want-have CIDs; bcast/cancel/resp: the CIDs
	Place  int    `json:"p,omitempty"`
	Ms     int    `json:"ms,omitempty"` // sleep: virtual milliseconds
}

type Case struct {
	MaxMsg       int    `json:"max_msg"`
	SupportsHave bool   `json:"supports_have"`
	DHStub       bool   `json:"dh_stub,omitempty"`
	NCids        int    `json:"ncids"`
	Steps        []Step `json:"steps"`
}

const maxCids = 10

var cidPool = func() []cid.Cid {
	var out []cid.Cid
	for i := 0; i < maxCids; i++ {
		h, err := mh.Sum([]byte(fmt.Sprintf("c35-cid-%d", i/2*2)), mh.SHA2_256, -1)
		if err != nil {
			panic(err)
		}
		// pairs (0,1), (2,3), ... share a multihash: CIDv1-raw and CIDv0/CIDv1-dag-pb
		switch {
		case i%2 == 0:
			out = append(out, cid.NewCidV1(cid.Raw, h))
		case i%4 == 1:
			out = append(out, cid.NewCidV0(h))
		default:
			out = append(out, cid.NewCidV1(cid.DagProtobuf, h))
		}
	}
	return out
}()

var cidIndex = func() map[cid.Cid]int {
	m := map[cid.Cid]int{}
	for i, c := range cidPool {
		m[c] = i
	}
	return m
}()

func cids(ix []int) []cid.Cid {
	out := make([]cid.Cid, 0, len(ix))
	for _, i := range ix {
		out = append(out, cidPool[i%maxCids])
	}
	return out
}

func genKeys(t *rapid.T, n int, label string, min int) []int {
	return rapid.SliceOfN(rapid.IntRange(0, n-1), min, 3).Draw(t, label)
}

func gen(t *rapid.T) Case {
	c := Case{}
	c.MaxMsg = rapid.SampledFrom([]int{1, 1, 45, 90, 130, 300, 2 << 20}).Draw(t, "maxmsg")
	c.SupportsHave = rapid.IntRange(0, 3).Draw(t, "have") != 0
	c.DHStub = rapid.Bool().Draw(t, "dhstub")
	c.NCids = rapid.SampledFrom([]int{1, 2, 3, 3, 5, 10}).Draw(t, "ncids")
	allowFail := rapid.IntRange(0, 9).Draw(t, "allowfail") == 0
	n := rapid.IntRange(1, kit.Scale(40, 60)).Draw(t, "nsteps")
	kinds := []string{"wants", "wants", "wants", "wants", "wants", "bcast", "bcast", "bcast", "cancel", "cancel", "cancel", "cancel", "cancel",
		"sleep", "sleep", "sleep", "sleep", "rebroadcast", "resp"}
	if allowFail {
		kinds = append(kinds, "failnext")
	}
	for i := 0; i < n; i++ {
		s := Step{Kind: rapid.SampledFrom(kinds).Draw(t, "kind")}
		switch s.Kind {
		case "wants":
			switch rapid.IntRange(0, 3).Draw(t, "wshape") {
			case 0:
				s.Blocks = genKeys(t, c.NCids, "blocks", 1)
			case 1:
				s.Keys = genKeys(t, c.NCids, "haves", 1)
			default:
				s.Blocks = genKeys(t, c.NCids, "blocks", 0)
				s.Keys = genKeys(t, c.NCids, "haves", 0)
			}
		case "bcast", "cancel", "resp":
			s.Keys = genKeys(t, c.NCids, "keys", 1)
		case "sleep":
			s.Ms = rapid.SampledFrom([]int{1, 19, 20, 25, 25, 100, 15000, 30000, 31000}).Draw(t, "ms")
		}
		switch s.Kind {
		case "wants", "bcast", "cancel", "resp":
			s.Place = rapid.SampledFrom([]int{placeNow, placeNow, placeNow, placeSend, placeHook, placeHook}).Draw(t, "place")
		}
		c.Steps = append(c.Steps, s)
	}
	return c
}

// ---------------------------------------------------------------------------
// model of the client's intent and of the receiver

const (
	tBlock = 0
	tHave  = 1
)

type cidModel struct {
	// wants issued since the last cancel of this CID
	peerBlock, peerHave, bcst bool
	// the client has at some time asked for this CID in a way that goes out as want-block
	everBlock bool
	// cancelOwed: the client cancelled this CID while it was active at the receiver and no
	// cancel has been delivered since. cancelSuppressed: while the cancel was owed the client
	// issued a new want for the CID (the queue then drops the queued cancel). Used only to
	// recognise the signature of known finding "cancel-lost-after-rewant".
	cancelOwed, cancelSuppressed bool
	// resendPending: a rebroadcast (RebroadcastNow or a 15 s timer tick) happened while the CID
	// was active at the receiver and it has not been delivered again since (the queue has moved
	// it from its 'sent' list back to 'pending'). cancelInResend: the client cancelled the CID in
	// that state. Used only for the signature of known finding "cancel-lost-during-rebroadcast".
	resendPending, cancelInResend bool
	// crossList: inside one hook window (between the two critical sections) the client
	// re-wanted this CID (after a cancel, or upgrading it) while it was wanted both as a peer
	// want and as a broadcast want; cleared when a want for the CID is delivered. Used only for the
	// signature of known finding "want-dropped-by-other-list-recheck".
	crossList bool
	// stamped: model of "the queue holds a sent-at time stamp for this CID" (set when a want
	// for it is delivered, cleared by a cancel or a response). mustResend: RebroadcastNow was
	// called while stamped; cleared when a want for the CID is delivered again or the CID is
	// cancelled.
	stamped, mustResend bool
}

type harness struct {
	c        Case
	mq       *verifbridge.MessageQueue
	model    [maxCids]cidModel
	recv     map[int]int // receiver-side want-list built by replaying delivered messages: cid -> type
	sendQ    []Step      // ops waiting for the next SendMsg
	hookQ    []Step      // ops waiting for the next hook call
	failed   bool        // a SendMsg returned an error: the peer counts as disconnected from here on
	failNx   bool
	err      error
	known    string        // known-finding key whose signature the failure matches
	hookRan  bool          // client ops ran at the hook of the extraction in progress
	recorded bool          // the last call of fail was the one that set err
	now      time.Duration // virtual time since Startup
	// awaitSend: a hook window executed a cancel and no SendMsg has followed yet;
	// emptyAfterHookCancel: such an extraction ended without sending anything. Used only for
	// the signature of known finding "stall-after-emptied-message".
	awaitSend, emptyAfterHookCancel bool
	respDirty                       map[int]bool // CIDs with a response not yet known to be processed

	// statistics
	msgs, splits, hookOps, sendOps, hookTouch, sendTouch, rebroadcasts, checks, resent int
	log                                                                                []string
}

func (h *harness) logf(format string, a ...any) {
	if len(h.log) < 400 {
		h.log = append(h.log, fmt.Sprintf(format, a...))
	}
}

// fail records the first violation of a run (later ones are ignored).
func (h *harness) fail(format string, a ...any) {
	h.recorded = h.err == nil
	if h.recorded {
		h.err = fmt.Errorf(format+"\ntrace:\n  %s", append(a, strings.Join(h.log, "\n  "))...)
	}
}

// setKnown attaches a known-finding key to the violation just passed to fail, but only if
// that violation is the one that was recorded.
func (h *harness) setKnown(key string) {
	if h.recorded {
		h.known = key
	}
}

// wanted reports whether (and with which type) the client currently wants CID i from this
// peer, given what the queue documents it sends to a peer with/without HAVE support:
// want-haves are not sent to peers without HAVE support, broadcast want-haves are sent to
// them as want-blocks.
func (h *harness) wanted(i int) (bool, int) {
	m := h.model[i]
	if h.c.SupportsHave {
		if m.peerBlock {
			return true, tBlock
		}
		return m.peerHave || m.bcst, tHave
	}
	return m.peerBlock || m.bcst, tBlock
}

// wantedAny reports whether the client currently wants CID i from this peer in any form
// (including a want-have that cannot be expressed to a peer without HAVE support).
func (h *harness) wantedAny(i int) bool {
	m := h.model[i]
	return m.peerBlock || m.peerHave || m.bcst
}

// apply executes a client op on the model and then on the queue. The model is updated
// first: the queue call is what may wake the send loop, which reads the model from its
// own goroutine (in the fake SendMsg); the client goroutine touches nothing after the
// queue call until synctest.Wait has parked the loop again.
func (h *harness) apply(s Step, where string) {
	switch s.Kind {
	case "wants":
		h.logf("%s AddWants(blocks=%v, haves=%v)", where, s.Blocks, s.Keys)
		for _, i := range s.Keys {
			h.model[i%maxCids].peerHave = true
			h.noteWant(i % maxCids)
		}
		for _, i := range s.Blocks {
			h.model[i%maxCids].peerBlock = true
			h.model[i%maxCids].everBlock = true
			h.noteWant(i % maxCids)
		}
		h.mq.AddWants(cids(s.Blocks), cids(s.Keys))
	case "bcast":
		h.logf("%s AddBroadcastWantHaves(%v)", where, s.Keys)
		for _, i := range s.Keys {
			h.model[i%maxCids].bcst = true
			h.noteWant(i % maxCids)
			if !h.c.SupportsHave {
				h.model[i%maxCids].everBlock = true
			}
		}
		h.mq.AddBroadcastWantHaves(cids(s.Keys))
	case "cancel":
		h.logf("%s AddCancels(%v)", where, s.Keys)
		for _, i := range s.Keys {
			m := &h.model[i%maxCids]
			m.peerBlock, m.peerHave, m.bcst = false, false, false
			m.stamped, m.mustResend = false, false
			if _, has := h.recv[i%maxCids]; has {
				m.cancelOwed = true
				if m.resendPending {
					m.cancelInResend = true
				}
			}
		}
		h.mq.AddCancels(cids(s.Keys))
	case "resp":
		h.logf("%s ResponseReceived(%v)", where, s.Keys)
		// The response is processed by the send loop at some point before it parks again;
		// until then the model does not claim a time stamp for these CIDs.
		for _, i := range s.Keys {
			h.model[i%maxCids].stamped = false
			h.respDirty[i%maxCids] = true
		}
		h.mq.ResponseReceived(cids(s.Keys))
	}
}

func (h *harness) noteWant(i int) {
	if h.model[i].cancelOwed {
		h.model[i].cancelSuppressed = true
	}
}

// noteRebroadcast marks every CID active at the receiver as possibly waiting for a re-send.
func (h *harness) noteRebroadcast() {
	for i := range h.recv {
		h.model[i].resendPending = true
	}
}

func touches(s Step, set map[int]bool) bool {
	for _, i := range s.Blocks {
		if set[i%maxCids] {
			return true
		}
	}
	for _, i := range s.Keys {
		if set[i%maxCids] {
			return true
		}
	}
	return false
}

// unsettled returns the CIDs on which client intent and receiver currently differ, i.e.
// the CIDs the next message has to mention.
func (h *harness) unsettled() map[int]bool {
	out := map[int]bool{}
	for i := 0; i < maxCids; i++ {
		w, t := h.wanted(i)
		rt, has := h.recv[i]
		if w != has || (w && t == tBlock && rt == tHave) {
			out[i] = true
		}
	}
	return out
}

// deliver replays one message onto the receiver-side want-list.
func (h *harness) deliver(full bool, entries []bsmsg.Entry) {
	h.msgs++
	if full {
		h.recv = map[int]int{}
	}
	sort.Slice(entries, func(a, b int) bool { return entries[a].Priority > entries[b].Priority })
	var desc []string
	for _, e := range entries {
		i, ok := cidIndex[e.Cid]
		if !ok {
			h.fail("message mentions CID %s which the client never used", e.Cid)
			continue
		}
		if e.Cancel {
			desc = append(desc, fmt.Sprintf("cancel %d", i))
			if _, has := h.recv[i]; !has && !h.failed {
				// the queue documents "Only send a cancel if a want was sent"
				h.fail("cancel for CID %d sent although no want for it is active at the receiver (no want was delivered since the last cancel)", i)
				if h.model[i].crossList {
					h.setKnown("want-dropped-by-other-list-recheck")
				}
			}
			delete(h.recv, i)
			h.model[i].cancelOwed, h.model[i].cancelSuppressed = false, false
			h.model[i].resendPending, h.model[i].cancelInResend = false, false
			h.model[i].crossList = false
			continue
		}
		t := tBlock
		if e.WantType == pb.Message_Wantlist_Have {
			t = tHave
		}
		desc = append(desc, fmt.Sprintf("want-%s %d", []string{"block", "have"}[t], i))
		if !h.wantedAny(i) && !h.failed {
			if _, has := h.recv[i]; !has {
				h.fail("message (re-)adds CID %d at the receiver although the client does not want it (cancelled or never wanted)", i)
			}
		}
		if old, has := h.recv[i]; !has || (old == tHave && t == tBlock) {
			h.recv[i] = t
		}
		h.model[i].resendPending = false
		if _, wt := h.wanted(i); t == tBlock || wt == tHave {
			// the delivered want is as strong as what the client wants now
			h.model[i].crossList = false
		}
		h.model[i].stamped = !h.respDirty[i]
		if h.model[i].mustResend {
			h.model[i].mustResend = false
			h.resent++
		}
	}
	h.logf("  -> message #%d delivered: [%s]", h.msgs, strings.Join(desc, ", "))
}

// checkIdle compares the receiver-side want-list with the client's current wants.
func (h *harness) checkIdle(when string) {
	if h.failed || h.err != nil {
		return
	}
	h.checks++
	for i := 0; i < maxCids; i++ {
		if h.model[i].mustResend {
			// documented: RebroadcastNow re-sends every want that was sent (interval 0)
			h.fail("%s: queue idle but RebroadcastNow did not re-send the want for CID %d", when, i)
			return
		}
		w, t := h.wanted(i)
		rt, has := h.recv[i]
		switch {
		case w && !has:
			h.fail("%s: queue idle but current want for CID %d was never delivered (left unsent)", when, i)
			if h.model[i].crossList {
				h.setKnown("want-dropped-by-other-list-recheck")
			}
		case !w && has && h.wantedAny(i):
			// Peer without HAVE support and the client's only current want is a want-have,
			// which the queue documents it does not send. The statement's literal reading
			// (CID still wanted, strongest requested type) allows the receiver to hold the
			// want-block the client asked for earlier; anything else is foreign.
			if !h.model[i].everBlock {
				h.fail("%s: receiver has want-block for CID %d but the client only ever asked for want-have", when, i)
			}
		case !w && has:
			h.fail("%s: queue idle but CID %d is still active at the receiver although the client cancelled it", when, i)
			switch {
			case h.model[i].cancelSuppressed:
				h.setKnown("cancel-lost-after-rewant")
			case h.model[i].cancelInResend:
				h.setKnown("cancel-lost-during-rebroadcast")
			}
		case w && has && t == tBlock && rt == tHave:
			h.fail("%s: queue idle but receiver only has want-have for CID %d while the client wants the block", when, i)
			if h.model[i].crossList {
				h.setKnown("want-dropped-by-other-list-recheck")
			}
		case w && has && t == tHave && rt == tBlock && !h.model[i].everBlock:
			h.fail("%s: receiver has want-block for CID %d but the client only ever asked for want-have", when, i)
		}
		if h.err != nil {
			return
		}
	}
}

// ---------------------------------------------------------------------------
// fakes

type fakeNet struct{ h *harness }

func (n *fakeNet) Connect(context.Context, peer.AddrInfo) error { return nil }
func (n *fakeNet) NewMessageSender(context.Context, peer.ID, *bsnet.MessageSenderOpts) (bsnet.MessageSender, error) {
	return &fakeSender{n.h}, nil
}
func (n *fakeNet) Latency(peer.ID) time.Duration             { return 0 }
func (n *fakeNet) Ping(context.Context, peer.ID) ping.Result { return ping.Result{} }
func (n *fakeNet) Self() peer.ID                             { return "" }

type fakeSender struct{ h *harness }

func (s *fakeSender) Reset() error       { return nil }
func (s *fakeSender) SupportsHave() bool { return s.h.c.SupportsHave }
func (s *fakeSender) SendMsg(ctx context.Context, msg bsmsg.BitSwapMessage) error {
	h := s.h
	h.awaitSend = false
	entries := msg.Wantlist()
	if h.failNx {
		h.failNx = false
		h.failed = true
		h.logf("  -> SendMsg fails (message with %d entries lost); peer counts as disconnected", len(entries))
		return errors.New("verif: injected send failure")
	}
	inMsg := map[int]bool{}
	for _, e := range entries {
		if i, ok := cidIndex[e.Cid]; ok {
			inMsg[i] = true
		}
	}
	h.deliver(msg.Full(), entries)
	if h.mq.HasMessage() && !h.hookRan && h.c.MaxMsg < 2<<20 {
		// no client op ran in this extraction's window, so the work that is still pending
		// was left behind by the size limit
		h.splits++
	}
	h.hookRan = false
	q := h.sendQ
	h.sendQ = nil
	for _, op := range q {
		h.sendOps++
		if touches(op, inMsg) {
			h.sendTouch++
		}
		h.apply(op, "[in SendMsg]")
	}
	return nil
}

type dhStub struct{ adds, cancels int }

func (d *dhStub) Start()                             {}
func (d *dhStub) Shutdown()                          {}
func (d *dhStub) AddPending(ks []cid.Cid)            { d.adds += len(ks) }
func (d *dhStub) CancelPending(ks []cid.Cid)         { d.cancels += len(ks) }
func (d *dhStub) UpdateMessageLatency(time.Duration) {}

// ---------------------------------------------------------------------------
// run

func run(c Case) kit.Result {
	if c.NCids < 1 || c.NCids > maxCids || c.MaxMsg < 1 {
		return kit.Fail("harness: bad case")
	}
	h := &harness{c: c, recv: map[int]int{}, respDirty: map[int]bool{}}
	var panicked any
	body := func(t *testing.T) {
		defer func() {
			if r := recover(); r != nil {
				panicked = r
			}
		}()
		h.execute()
	}
	if bubbleT == nil {
		return kit.Fail("harness: no testing.T for the synctest bubble")
	}
	synctest.Test(bubbleT, body)
	verifbridge.SetBetweenSectionsHook(nil)
	if panicked != nil {
		return kit.Fail("panic: %v\ntrace:\n  %s", panicked, strings.Join(h.log, "\n  "))
	}
	if h.err != nil {
		return kit.Result{Err: h.err, Known: h.known}
	}
	var cls []string
	if h.splits > 0 {
		cls = append(cls, "split-by-size")
	}
	if h.hookTouch > 0 {
		cls = append(cls, "hook-op-on-unsettled-cid")
	}
	if h.sendTouch > 0 {
		cls = append(cls, "sendmsg-op-on-cid-in-flight")
	}
	if h.hookOps > 0 {
		cls = append(cls, "hook-op")
	}
	if h.sendOps > 0 {
		cls = append(cls, "sendmsg-op")
	}
	if h.rebroadcasts > 0 {
		cls = append(cls, "rebroadcast-resent")
	}
	if h.resent > 0 {
		cls = append(cls, "rebroadcastnow-resent-checked")
	}
	if h.failed {
		cls = append(cls, "send-failure")
	}
	if !c.SupportsHave {
		cls = append(cls, "no-have-support")
	}
	if h.msgs == 0 {
		cls = append(cls, "no-message")
	}
	cls = append(cls, fmt.Sprintf("maxmsg:%d", c.MaxMsg))
	nt := h.msgs > 0 && (h.hookTouch > 0 || h.sendTouch > 0 || h.splits > 0)
	return kit.Result{NonTrivial: nt, Classes: cls}
}

const debounce = 25 * time.Millisecond

// the queue's rebroadcast timer ticks every rebroadcastInterval/2 = 15 s after Startup
const rebroadcastTick = 15 * time.Second

// wait parks the client goroutine until the send loop (and everything else in the bubble)
// is durably blocked. All responses handed to the queue have been processed by then.
func (h *harness) wait() {
	synctest.Wait()
	clear(h.respDirty)
}

// sleep advances the virtual clock and lets the send loop run until it is parked again.
// The advance is cut at the rebroadcast ticks so that the model can note, immediately
// before each tick, which CIDs are active at the receiver (signature tracking only).
func (h *harness) sleep(d time.Duration) {
	for d > 0 {
		next := (h.now/rebroadcastTick + 1) * rebroadcastTick
		if h.now+d < next {
			time.Sleep(d)
			h.wait()
			h.now += d
			return
		}
		if pre := next - h.now - time.Nanosecond; pre > 0 {
			time.Sleep(pre)
			h.wait()
		}
		h.noteRebroadcast()
		time.Sleep(time.Nanosecond)
		h.wait()
		d -= next - h.now
		h.now = next
	}
}

func (h *harness) execute() {
	c := h.c
	var dh verifbridge.DontHaveTimeoutManager
	if c.DHStub {
		dh = &dhStub{}
	}
	ctx, cancel := context.WithCancel(context.Background())
	defer cancel()
	mq := verifbridge.NewMessageQueue(ctx, peer.ID("verif-peer"), &fakeNet{h}, c.MaxMsg, 100*time.Millisecond, 30*time.Second, dh)
	h.mq = mq
	verifbridge.SetBetweenSectionsHook(func(q *verifbridge.MessageQueue) {
		if q != mq {
			return
		}
		if h.awaitSend {
			h.awaitSend, h.emptyAfterHookCancel = false, true
		}
		h.hookRan = false
		ops := h.hookQ
		h.hookQ = nil
		if len(ops) == 0 {
			return
		}
		for _, op := range ops {
			if op.Kind == "cancel" {
				h.awaitSend = true
			}
		}
		h.hookRan = true
		uns := h.unsettled()
		before := h.model
		for _, op := range ops {
			h.hookOps++
			if touches(op, uns) {
				h.hookTouch++
			}
			h.apply(op, "[at hook]")
			for _, i := range append(append([]int{}, op.Blocks...), op.Keys...) {
				i %= maxCids
				switch op.Kind {
				case "wants", "bcast":
					// cancel + re-want, or a want-have -> want-block upgrade, of a CID that is
					// wanted in both lists: one list's re-check fails and removes the shared
					// message entry, the other list still records the CID as sent
					if before[i].bcst && (before[i].peerBlock || before[i].peerHave) {
						h.model[i].crossList = true
					}
				}
			}
		}
	})
	defer verifbridge.SetBetweenSectionsHook(nil)
	mq.Startup()
	defer func() {
		mq.Shutdown()
		h.wait()
	}()
	h.wait()

	for _, s := range c.Steps {
		if h.err != nil {
			return
		}
		switch s.Kind {
		case "wants", "bcast", "cancel", "resp":
			switch s.Place {
			case placeSend:
				h.sendQ = append(h.sendQ, s)
			case placeHook:
				h.hookQ = append(h.hookQ, s)
			default:
				h.apply(s, "[client]")
			}
		case "sleep":
			before := h.msgs
			h.logf("advance %dms", s.Ms)
			h.sleep(time.Duration(s.Ms) * time.Millisecond)
			if s.Ms >= 15000 && h.msgs > before {
				h.rebroadcasts++
			}
			if s.Ms >= 20 && !mq.HasMessage() {
				h.checkIdle(fmt.Sprintf("after advancing %dms", s.Ms))
			}
		case "rebroadcast":
			h.logf("RebroadcastNow")
			before := h.msgs
			h.noteRebroadcast()
			for i := range h.model {
				if h.model[i].stamped && !h.failed {
					h.model[i].mustResend = true
				}
			}
			mq.RebroadcastNow()
			h.wait()
			if h.msgs > before {
				h.rebroadcasts++
			}
		case "failnext":
			h.logf("next SendMsg will fail")
			h.failNx = true
		}
		h.wait()
	}
	if h.err != nil {
		return
	}
	// ops still waiting for a send / hook that never came run as plain client ops
	for len(h.sendQ)+len(h.hookQ) > 0 {
		q := append(h.sendQ, h.hookQ...)
		h.sendQ, h.hookQ = nil, nil
		for _, op := range q {
			h.apply(op, "[client, late]")
			h.wait()
		}
	}
	// let the queue drain: one debounce period per message
	for i := 0; i < 80; i++ {
		h.sleep(debounce)
		if h.err != nil {
			return
		}
		if !mq.HasMessage() && len(h.sendQ)+len(h.hookQ) == 0 {
			break
		}
		for len(h.sendQ)+len(h.hookQ) > 0 {
			q := append(h.sendQ, h.hookQ...)
			h.sendQ, h.hookQ = nil, nil
			for _, op := range q {
				h.apply(op, "[client, late]")
				h.wait()
			}
		}
	}
	if h.failed {
		return
	}
	if mq.HasMessage() {
		h.fail("queue still reports pending work after 80 debounce periods without client activity")
		if (h.emptyAfterHookCancel || h.awaitSend) && h.c.MaxMsg < 2<<20 {
			h.setKnown("stall-after-emptied-message")
		}
		return
	}
	h.checkIdle("final idle")
}

var spec = kit.Spec[Case]{
	Prop: "C35", Name: "main",
	Rule:  "synctest bubble, one real MessageQueue with fake network/sender; script of <=40 (thorough <=60) steps over 1..10 CIDs: AddWants/AddBroadcastWantHaves/AddCancels/ResponseReceived each placed (i) between sends, (ii) inside SendMsg or (iii) at hook H2 between the two critical sections of extractOutgoingMessage, virtual clock advances 1ms..31s, RebroadcastNow, injected send failure (ends the obligations: peer counts as disconnected); max message size 1 byte (one entry)..2MiB, with/without HAVE support; every delivered message is replayed onto a receiver want-list; whenever the queue is idle the receiver must hold exactly the CIDs the client wants (type at least the current want, want-block only if the client ever asked for one), no message may re-add a CID the client does not want, a cancel is only sent for a CID active at the receiver, RebroadcastNow must re-send stamped wants, and the queue must drain; non-trivial = at least one message and (an op at (ii) touching a CID of the in-flight message, or an op at (iii) touching a CID whose state still has to be sent, or a message split by the size limit)",
	Quick: 3000, Thorough: 12000,
	Gen: gen, Run: run,
	Journal: true,
}

func TestProp(t *testing.T) {
	bubbleT = t
	kit.All(t, spec)
}
