package c01

// C01: the default blockstore (optionally wrapped in the identity store) answers exactly
// like a map from multihash to bytes. Model-based sequential histories.

import (
	"bytes"
	"context"
	"fmt"
	"sort"
	"testing"

	bstore "github.com/ipfs/boxo/blockstore"
	blocks "github.com/ipfs/go-block-format"
	cid "github.com/ipfs/go-cid"
	ds "github.com/ipfs/go-datastore"
	dsq "github.com/ipfs/go-datastore/query"
	ipld "github.com/ipfs/go-ipld-format"
	"github.com/multiformats/go-base32"
	mh "github.com/multiformats/go-multihash"
	"pgregory.net/rapid"
	"verif/kit"
)

func TestMain(m *testing.M) { kit.Main(m) }

// Ref names one CID form of one pool block. V > 0 (generated only with WriteThrough)
// stores different bytes under the same CID, to observe "the bytes last stored".
type Ref struct {
	B int `json:"b"`
	F int `json:"f"`
	V int `json:"v,omitempty"`
}

type Op struct {
	Kind  string `json:"kind"` // put putmany delete get has getsize view allkeys
	R     Ref    `json:"r"`
	Batch []Ref  `json:"batch,omitempty"`
}

type Case struct {
	WriteThrough bool            `json:"write_through"`
	NoPrefix     bool            `json:"no_prefix"`
	IDStore      bool            `json:"idstore"`
	Pool         []kit.PoolBlock `json:"pool"`
	Ops          []Op            `json:"ops"`
}

var opKinds = []string{"put", "put", "put", "putmany", "putmany", "delete", "delete", "get", "get", "has", "getsize", "view", "allkeys"}

func genRef(t *rapid.T, c *Case, mutating bool) Ref {
	r := Ref{
		B: rapid.IntRange(0, len(c.Pool)-1).Draw(t, "blk"),
		F: rapid.IntRange(0, 3).Draw(t, "form"),
	}
	if mutating && c.WriteThrough && rapid.IntRange(0, 7).Draw(t, "variant") == 0 {
		r.V = rapid.IntRange(1, 2).Draw(t, "v")
	}
	return r
}

func gen(t *rapid.T) Case {
	c := Case{
		WriteThrough: rapid.Bool().Draw(t, "wt"),
		NoPrefix:     rapid.Bool().Draw(t, "noprefix"),
		IDStore:      rapid.Bool().Draw(t, "idstore"),
	}
	c.Pool = kit.GenPool(t, 4, 12, true)
	// identity payloads whose multihash length needs a multi-byte varint (>= 128 bytes)
	for i := range c.Pool {
		if c.Pool[i].Prefix.MhType == mh.IDENTITY && rapid.IntRange(0, 2).Draw(t, "longid") == 0 {
			c.Pool[i].Data = kit.FillBytes(t, rapid.SampledFrom([]int{127, 128, 129, 200, 300}).Draw(t, "longidlen"))
		}
	}
	n := rapid.IntRange(1, kit.Scale(60, 120)).Draw(t, "nops")
	for i := 0; i < n; i++ {
		k := rapid.SampledFrom(opKinds).Draw(t, "kind")
		op := Op{Kind: k}
		switch k {
		case "putmany":
			m := rapid.IntRange(0, 5).Draw(t, "nbatch")
			for j := 0; j < m; j++ {
				if j > 0 && rapid.IntRange(0, 2).Draw(t, "dup") == 0 {
					// same block again, possibly under another alias
					prev := op.Batch[rapid.IntRange(0, j-1).Draw(t, "prev")]
					prev.F = rapid.IntRange(0, 3).Draw(t, "form")
					op.Batch = append(op.Batch, prev)
					continue
				}
				op.Batch = append(op.Batch, genRef(t, &c, true))
			}
		case "allkeys":
		case "put":
			op.R = genRef(t, &c, true)
		default:
			op.R = genRef(t, &c, false)
		}
		c.Ops = append(c.Ops, op)
	}
	return c
}

// ---------------------------------------------------------------------------

type model struct {
	idstore bool
	store   map[string][]byte // multihash -> bytes
}

func (m *model) inlined(c cid.Cid) (bool, []byte) {
	if !m.idstore {
		return false, nil
	}
	return kit.IsIdentity(c)
}

func (m *model) lookup(c cid.Cid) ([]byte, bool) {
	if ok, d := m.inlined(c); ok {
		return d, true
	}
	b, ok := m.store[string(c.Hash())]
	return b, ok
}

func (m *model) put(c cid.Cid, data []byte) {
	if ok, _ := m.inlined(c); ok {
		return
	}
	m.store[string(c.Hash())] = data
}

func (m *model) del(c cid.Cid) {
	if ok, _ := m.inlined(c); ok {
		return
	}
	delete(m.store, string(c.Hash()))
}

type sut struct {
	c     Case
	raw   *ds.MapDatastore
	bs    bstore.Blockstore
	m     *model
	ctx   context.Context
	pool  []kit.PoolBlock
	forms [][]cid.Cid // per pool block: base CID and its aliases (computed once)
}

func (s *sut) cidOf(r Ref) cid.Cid {
	f := s.forms[r.B%len(s.pool)]
	return f[r.F%len(f)]
}

func (s *sut) blockOf(r Ref) blocks.Block {
	p := s.pool[r.B%len(s.pool)]
	data := p.Data
	if r.V > 0 && s.c.WriteThrough {
		data = append(append([]byte{}, p.Data...), 0xF0, byte(r.V))
	}
	b, err := blocks.NewBlockWithCid(data, s.cidOf(r))
	if err != nil {
		panic(err)
	}
	return b
}

// readAll compares one CID through Has/GetSize/Get (and View when available) with the model.
func (s *sut) readAll(c cid.Cid, what string) error {
	want, present := s.m.lookup(c)
	has, err := s.bs.Has(s.ctx, c)
	if err != nil {
		return fmt.Errorf("%s: Has(%s): unexpected error %v", what, c, err)
	}
	if has != present {
		return fmt.Errorf("%s: Has(%s) = %v, model says present=%v", what, c, has, present)
	}
	sz, err := s.bs.GetSize(s.ctx, c)
	if present {
		if err != nil {
			return fmt.Errorf("%s: GetSize(%s) of a present block: error %v", what, c, err)
		}
		if sz != len(want) {
			return fmt.Errorf("%s: GetSize(%s) = %d, stored bytes have length %d", what, c, sz, len(want))
		}
	} else if err == nil || !ipld.IsNotFound(err) {
		return fmt.Errorf("%s: GetSize(%s) of an absent block: got (%d, %v), want not-found", what, c, sz, err)
	}
	if err := s.checkGet(c, what, want, present); err != nil {
		return err
	}
	return s.checkView(c, what, want, present)
}

func (s *sut) checkGet(c cid.Cid, what string, want []byte, present bool) error {
	blk, err := s.bs.Get(s.ctx, c)
	if present {
		if err != nil {
			return fmt.Errorf("%s: Get(%s) of a present block: error %v", what, c, err)
		}
		if !bytes.Equal(blk.RawData(), want) {
			return fmt.Errorf("%s: Get(%s) returned %x, last stored bytes are %x", what, c, blk.RawData(), want)
		}
		if !bytes.Equal(blk.Cid().Hash(), c.Hash()) {
			return fmt.Errorf("%s: Get(%s) returned a block with another multihash (%s)", what, c, blk.Cid())
		}
		return nil
	}
	if err == nil || !ipld.IsNotFound(err) {
		return fmt.Errorf("%s: Get(%s) of an absent block: got err=%v, want not-found", what, c, err)
	}
	return nil
}

func (s *sut) checkView(c cid.Cid, what string, want []byte, present bool) error {
	v, ok := s.bs.(bstore.Viewer)
	if !ok {
		return nil
	}
	called := 0
	var got []byte
	err := v.View(s.ctx, c, func(b []byte) error {
		called++
		got = append([]byte{}, b...)
		return nil
	})
	if present {
		if err != nil {
			return fmt.Errorf("%s: View(%s) of a present block: error %v", what, c, err)
		}
		if called != 1 {
			return fmt.Errorf("%s: View(%s) called the callback %d times", what, c, called)
		}
		if !bytes.Equal(got, want) {
			return fmt.Errorf("%s: View(%s) passed %x, last stored bytes are %x", what, c, got, want)
		}
		return nil
	}
	if called != 0 {
		return fmt.Errorf("%s: View(%s) of an absent block called the callback", what, c)
	}
	if err == nil || !ipld.IsNotFound(err) {
		return fmt.Errorf("%s: View(%s) of an absent block: got err=%v, want not-found", what, c, err)
	}
	return nil
}

func (s *sut) checkAllKeys(what string) error {
	ch, err := s.bs.AllKeysChan(s.ctx)
	if err != nil {
		return fmt.Errorf("%s: AllKeysChan: %v", what, err)
	}
	got := map[string]bool{}
	for c := range ch {
		got[string(c.Hash())] = true
	}
	for k := range got {
		if _, ok := s.m.store[k]; !ok {
			return fmt.Errorf("%s: AllKeysChan enumerated multihash %x which the model does not hold", what, k)
		}
	}
	for k := range s.m.store {
		if !got[k] {
			return fmt.Errorf("%s: AllKeysChan did not enumerate stored multihash %x", what, k)
		}
	}
	return nil
}

// checkRaw compares the backing datastore with the model: keys are exactly
// {/blocks|""}/base32(multihash) and values are the stored bytes.
func (s *sut) checkRaw(what string) error {
	res, err := s.raw.Query(s.ctx, dsq.Query{})
	if err != nil {
		return fmt.Errorf("%s: raw query: %v", what, err)
	}
	ents, err := res.Rest()
	if err != nil {
		return fmt.Errorf("%s: raw query: %v", what, err)
	}
	want := map[string][]byte{}
	for k, v := range s.m.store {
		key := "/" + base32.RawStdEncoding.EncodeToString([]byte(k))
		if !s.c.NoPrefix {
			key = "/blocks" + key
		}
		want[key] = v
	}
	keys := make([]string, 0, len(ents))
	for _, e := range ents {
		keys = append(keys, e.Key)
		w, ok := want[e.Key]
		if !ok {
			return fmt.Errorf("%s: backing datastore holds key %q which is not the key of a stored multihash", what, e.Key)
		}
		if !bytes.Equal(w, e.Value) {
			return fmt.Errorf("%s: backing datastore value under %q is %x, want %x", what, e.Key, e.Value, w)
		}
	}
	if len(ents) != len(want) {
		sort.Strings(keys)
		return fmt.Errorf("%s: backing datastore has %d keys %v, model has %d", what, len(ents), keys, len(want))
	}
	return nil
}

func (s *sut) sweep(what string) error {
	for _, fs := range s.forms {
		for _, c := range fs {
			if err := s.readAll(c, what); err != nil {
				return err
			}
		}
	}
	if err := s.checkAllKeys(what); err != nil {
		return err
	}
	return s.checkRaw(what)
}

func run(c Case) kit.Result {
	if len(c.Pool) == 0 {
		return kit.Result{}
	}
	raw := ds.NewMapDatastore()
	var opts []bstore.Option
	opts = append(opts, bstore.WriteThrough(c.WriteThrough))
	if c.NoPrefix {
		opts = append(opts, bstore.NoPrefix())
	}
	bs := bstore.NewBlockstore(raw, opts...)
	if c.IDStore {
		bs = bstore.NewIdStore(bs)
	}
	s := &sut{c: c, raw: raw, bs: bs, ctx: context.Background(), pool: c.Pool,
		m: &model{idstore: c.IDStore, store: map[string][]byte{}}}
	for _, p := range c.Pool {
		s.forms = append(s.forms, p.Forms())
	}

	var (
		lastPutForm  = map[string]string{} // multihash -> CID string of the most recent put
		aliasDelete  bool
		mixedPutMany bool
		identityOp   bool
		forged       bool
	)
	noteIdentity := func(ci cid.Cid) {
		if ok, _ := kit.IsIdentity(ci); ok && c.IDStore {
			identityOp = true
		}
	}

	for i, op := range c.Ops {
		what := fmt.Sprintf("op %d %s", i, op.Kind)
		switch op.Kind {
		case "put":
			b := s.blockOf(op.R)
			noteIdentity(b.Cid())
			if op.R.V > 0 && c.WriteThrough {
				forged = true
			}
			if err := bs.Put(s.ctx, b); err != nil {
				return kit.Fail("%s(%s): %v", what, b.Cid(), err)
			}
			s.m.put(b.Cid(), b.RawData())
			lastPutForm[string(b.Cid().Hash())] = b.Cid().KeyString()
		case "putmany":
			var bl []blocks.Block
			forms := map[string]map[string]bool{}
			for _, r := range op.Batch {
				b := s.blockOf(r)
				noteIdentity(b.Cid())
				if r.V > 0 && c.WriteThrough {
					forged = true
				}
				bl = append(bl, b)
				h := string(b.Cid().Hash())
				if forms[h] == nil {
					forms[h] = map[string]bool{}
				}
				forms[h][b.Cid().KeyString()] = true
				if ok, _ := kit.IsIdentity(b.Cid()); ok && len(op.Batch) > 1 {
					mixedPutMany = true
				}
			}
			for _, f := range forms {
				if len(f) > 1 {
					mixedPutMany = true
				}
			}
			if err := bs.PutMany(s.ctx, bl); err != nil {
				return kit.Fail("%s: %v", what, err)
			}
			for _, b := range bl {
				s.m.put(b.Cid(), b.RawData())
				lastPutForm[string(b.Cid().Hash())] = b.Cid().KeyString()
			}
		case "delete":
			ci := s.cidOf(op.R)
			noteIdentity(ci)
			if f, ok := lastPutForm[string(ci.Hash())]; ok && f != ci.KeyString() {
				if _, present := s.m.store[string(ci.Hash())]; present {
					aliasDelete = true
				}
			}
			if err := bs.DeleteBlock(s.ctx, ci); err != nil {
				return kit.Fail("%s(%s): %v", what, ci, err)
			}
			s.m.del(ci)
		case "get":
			ci := s.cidOf(op.R)
			noteIdentity(ci)
			want, present := s.m.lookup(ci)
			if err := s.checkGet(ci, what, want, present); err != nil {
				return kit.Result{Err: err}
			}
		case "view":
			ci := s.cidOf(op.R)
			noteIdentity(ci)
			want, present := s.m.lookup(ci)
			if err := s.checkView(ci, what, want, present); err != nil {
				return kit.Result{Err: err}
			}
		case "has", "getsize":
			ci := s.cidOf(op.R)
			noteIdentity(ci)
			if err := s.readAll(ci, what); err != nil {
				return kit.Result{Err: err}
			}
		case "allkeys":
			if err := s.checkAllKeys(what); err != nil {
				return kit.Result{Err: err}
			}
		default:
			continue
		}
		switch op.Kind {
		case "put", "putmany", "delete":
			if err := s.sweep("after " + what); err != nil {
				return kit.Result{Err: err}
			}
		}
	}
	if err := s.sweep("at the end"); err != nil {
		return kit.Result{Err: err}
	}

	cls := []string{fmt.Sprintf("wt:%v", c.WriteThrough), fmt.Sprintf("noprefix:%v", c.NoPrefix), fmt.Sprintf("idstore:%v", c.IDStore)}
	if aliasDelete {
		cls = append(cls, "delete-via-other-alias")
	}
	if mixedPutMany {
		cls = append(cls, "putmany-mixed")
	}
	if identityOp {
		cls = append(cls, "identity-under-idstore")
	}
	if forged {
		cls = append(cls, "overwrite-different-bytes")
	}
	return kit.Result{NonTrivial: aliasDelete || mixedPutMany || identityOp, Classes: cls}
}

var spec = kit.Spec[Case]{
	Prop: "C01", Name: "main",
	Rule:  "config {WriteThrough, NoPrefix, idstore} x op list (<=60, thorough <=120) over a pool of 4-12 honest blocks (few data values x several hash functions, every CID used in all its alias forms, identity CIDs, the empty block); Put/PutMany(0-5, duplicates and aliases in one batch)/Delete/Get/Has/GetSize/View/AllKeysChan against a map[multihash]bytes model; after every mutation all pool CIDs in all forms are read back, AllKeysChan and the raw datastore keys/values are compared; with WriteThrough some puts store different bytes under the same CID (last stored wins). non-trivial = a present block is deleted through another alias than it was put with, or a PutMany mixes aliases/identity CIDs, or an identity CID is used under the idstore",
	Quick: 2500, Thorough: 20000,
	Gen: gen, Run: run,
}

func TestProp(t *testing.T) { kit.All(t, spec) }
