// Package c04 checks property C04: only allowlisted hashes and digest sizes enter or leave
// the block service.
//
// Sub-check "grid": exhaustive code x digest-length grid through verifcid.ValidateCid for
// the default allowlist, NewAllowlist, NewOverridingAllowlist (over default / a set / nil /
// a caller-implemented Allowlist) and a caller-implemented Allowlist with its own bounds.
//
// Sub-check "service": generated block service histories (AddBlock, AddBlocks, GetBlock,
// GetBlocks, sessions) under a random allowlist, over a blockstore that may already hold
// rejected blocks and an honest recording exchange that has the rejected blocks.
package c04

import (
	"bytes"
	"context"
	"errors"
	"fmt"
	"os"
	"sort"
	"strconv"
	"sync"
	"testing"

	"github.com/ipfs/boxo/blockservice"
	"github.com/ipfs/boxo/blockstore"
	"github.com/ipfs/boxo/exchange"
	"github.com/ipfs/boxo/verifcid"
	blocks "github.com/ipfs/go-block-format"
	cid "github.com/ipfs/go-cid"
	ds "github.com/ipfs/go-datastore"
	dssync "github.com/ipfs/go-datastore/sync"
	ipld "github.com/ipfs/go-ipld-format"
	mh "github.com/multiformats/go-multihash"
	"pgregory.net/rapid"
	"verif/kit"
)

func TestMain(m *testing.M) { kit.Main(m) }

// ---------------------------------------------------------------------------
// allowlist specification (JSON) + independent model

// Entry is one key of the map given to NewAllowlist / NewOverridingAllowlist.
type Entry struct {
	Code uint64 `json:"code"`
	Ok   bool   `json:"ok"`
}

// Bound is one row of a caller-implemented Allowlist (kind "bounds").
type Bound struct {
	Code uint64 `json:"code"`
	Ok   bool   `json:"ok"`
	Min  int    `json:"min"`
	Max  int    `json:"max"`
}

// AllowSpec describes how the allowlist under test is built.
//
//	default : verifcid.DefaultAllowlist
//	set     : verifcid.NewAllowlist(Set)
//	over    : verifcid.NewOverridingAllowlist(Base (nil when absent), Set)
//	bounds  : a caller-side implementation of the verifcid.Allowlist interface: codes listed in
//	          Bounds have their own verdict and [Min,Max]; all other codes are not allowed and
//	          report [DefMin,DefMax].
type AllowSpec struct {
	Kind   string     `json:"kind"`
	Set    []Entry    `json:"set,omitempty"`
	Base   *AllowSpec `json:"base,omitempty"`
	Bounds []Bound    `json:"bounds,omitempty"`
	DefMin int        `json:"def_min,omitempty"`
	DefMax int        `json:"def_max,omitempty"`
}

type boundsList struct {
	rows           map[uint64]Bound
	defMin, defMax int
}

func (b boundsList) IsAllowed(code uint64) bool { return b.rows[code].Ok }
func (b boundsList) MinDigestSize(code uint64) int {
	if r, ok := b.rows[code]; ok {
		return r.Min
	}
	return b.defMin
}
func (b boundsList) MaxDigestSize(code uint64) int {
	if r, ok := b.rows[code]; ok {
		return r.Max
	}
	return b.defMax
}

func entryMap(es []Entry) map[uint64]bool {
	m := make(map[uint64]bool, len(es))
	for _, e := range es {
		m[e.Code] = e.Ok
	}
	return m
}

// Build constructs the real allowlist.
func (a *AllowSpec) Build() verifcid.Allowlist {
	switch a.Kind {
	case "default":
		return verifcid.DefaultAllowlist
	case "set":
		return verifcid.NewAllowlist(entryMap(a.Set))
	case "over":
		if a.Base == nil {
			return verifcid.NewOverridingAllowlist(nil, entryMap(a.Set))
		}
		return verifcid.NewOverridingAllowlist(a.Base.Build(), entryMap(a.Set))
	case "bounds":
		rows := make(map[uint64]Bound, len(a.Bounds))
		for _, r := range a.Bounds {
			rows[r.Code] = r
		}
		return boundsList{rows, a.DefMin, a.DefMax}
	}
	panic("bad allowlist kind " + a.Kind)
}

// frozen copy of the documented default set, written with numeric multicodec values on
// purpose (independent of the go-multihash constants the library uses).
func defaultAllowed(code uint64) bool {
	switch code {
	case 0x00, // identity
		0x11,       // sha1
		0x12, 0x13, // sha2-256, sha2-512
		0x14, 0x15, 0x16, 0x17, // sha3-512, -384, -256, -224
		0x19,                   // shake-256
		0x1a, 0x1b, 0x1c, 0x1d, // keccak-224, -256, -384, -512
		0x1e, // blake3
		0x56: // dbl-sha2-256
		return true
	}
	if code >= 0xb214 && code <= 0xb240 { // blake2b-160 .. blake2b-512
		return true
	}
	if code >= 0xb254 && code <= 0xb260 { // blake2s-160 .. blake2s-256
		return true
	}
	return false
}

func defaultBounds(code uint64) (int, int) {
	if code == 0x00 {
		return 0, 128
	}
	return 20, 128
}

// Model is the reference semantics: verdict and digest bounds for one code.
func (a *AllowSpec) Model(code uint64) (ok bool, min, max int) {
	switch a.Kind {
	case "default":
		min, max = defaultBounds(code)
		return defaultAllowed(code), min, max
	case "set":
		min, max = defaultBounds(code)
		return entryMap(a.Set)[code], min, max
	case "over":
		if a.Base == nil {
			min, max = defaultBounds(code)
		} else {
			ok, min, max = a.Base.Model(code)
		}
		if v, found := entryMap(a.Set)[code]; found {
			ok = v
		}
		return ok, min, max
	case "bounds":
		for _, r := range a.Bounds {
			if r.Code == code {
				return r.Ok, r.Min, r.Max
			}
		}
		return false, a.DefMin, a.DefMax
	}
	panic("bad allowlist kind " + a.Kind)
}

// checkCid compares ValidateCid on c with the reference verdict. It returns whether the
// CID is accepted by the reference.
func checkCid(spec *AllowSpec, al verifcid.Allowlist, c cid.Cid, code uint64, L int) (accept bool, err error) {
	mok, mmin, mmax := spec.Model(code)
	// the configured list, read through its interface
	iok, imin, imax := al.IsAllowed(code), al.MinDigestSize(code), al.MaxDigestSize(code)
	if iok != mok {
		return false, fmt.Errorf("IsAllowed(0x%x)=%v, documented semantics give %v", code, iok, mok)
	}
	if imin != mmin || imax != mmax {
		return false, fmt.Errorf("digest bounds for 0x%x are [%d,%d], documented semantics give [%d,%d]", code, imin, imax, mmin, mmax)
	}
	got := verifcid.ValidateCid(al, c)
	accept = mok && mmin <= L && L <= mmax
	switch {
	case accept:
		if got != nil {
			return accept, fmt.Errorf("code 0x%x len %d: allowed with bounds [%d,%d] but ValidateCid = %v", code, L, mmin, mmax, got)
		}
	case !mok:
		if !errors.Is(got, verifcid.ErrPossiblyInsecureHashFunction) {
			return accept, fmt.Errorf("code 0x%x len %d: function not allowed but ValidateCid = %v", code, L, got)
		}
	case L < mmin:
		if !errors.Is(got, verifcid.ErrDigestTooSmall) {
			return accept, fmt.Errorf("code 0x%x len %d < min %d but ValidateCid = %v", code, L, mmin, got)
		}
	default:
		if !errors.Is(got, verifcid.ErrDigestTooLarge) {
			return accept, fmt.Errorf("code 0x%x len %d > max %d but ValidateCid = %v", code, L, mmax, got)
		}
	}
	return accept, nil
}

// ---------------------------------------------------------------------------
// sub-check "grid"

const maxLen = 256

type GridCase struct {
	Code  uint64    `json:"code"`
	Allow AllowSpec `json:"allow"`
	// State says how Code appears in the top-level Set of Allow: absent | true | false
	// ("n/a" for kinds without a set). Informational; the Set already reflects it.
	State string `json:"state"`
}

var (
	zeroDigest = make([]byte, maxLen)
	synthMu    sync.Mutex
	synthCache = map[uint64][]cid.Cid{}
)

// synthetic CIDs mh.Encode(zeros(L), code) for L = 0..256; the validator never hashes.
func synthCids(code uint64) []cid.Cid {
	synthMu.Lock()
	defer synthMu.Unlock()
	if v, ok := synthCache[code]; ok {
		return v
	}
	codecs := []uint64{cid.Raw, cid.DagProtobuf, cid.DagCBOR}
	out := make([]cid.Cid, maxLen+1)
	for L := 0; L <= maxLen; L++ {
		h, err := mh.Encode(zeroDigest[:L], code)
		if err != nil {
			panic(err)
		}
		out[L] = cid.NewCidV1(codecs[(int(code%7)+L)%3], h)
	}
	synthCache[code] = out
	return out
}

func runGrid(c GridCase) kit.Result {
	al := c.Allow.Build()
	cids := synthCids(c.Code)
	accepted, rejected := 0, 0
	for L := 0; L <= maxLen; L++ {
		acc, err := checkCid(&c.Allow, al, cids[L], c.Code, L)
		if err != nil {
			return kit.Result{Err: err}
		}
		if acc {
			accepted++
		} else {
			rejected++
		}
	}
	if c.Code == 0x12 {
		// the CIDv0 form of sha2-256/32 goes through the same rule
		h, _ := mh.Encode(zeroDigest[:32], 0x12)
		if _, err := checkCid(&c.Allow, al, cid.NewCidV0(h), 0x12, 32); err != nil {
			return kit.Fail("CIDv0: %v", err)
		}
	}
	res := kit.Result{Classes: []string{"kind:" + c.Allow.Kind, "state:" + c.State}}
	if c.Allow.Kind == "over" {
		b := "nil"
		if c.Allow.Base != nil {
			b = c.Allow.Base.Kind
		}
		res.Classes = append(res.Classes, "over-base:"+b)
	}
	switch {
	case c.Code == 0:
		res.Classes = append(res.Classes, "code:identity")
	case mh.Codes[c.Code] != "":
		res.Classes = append(res.Classes, "code:registry")
	default:
		res.Classes = append(res.Classes, "code:unknown")
	}
	if accepted > 0 {
		res.Classes = append(res.Classes, "function-allowed")
		// both verdicts occur along the length axis: the bounds matter for this case
		res.NonTrivial = rejected > 0
	} else {
		res.Classes = append(res.Classes, "function-denied")
	}
	if c.Allow.Kind == "over" && c.State != "absent" {
		bok := false
		if c.Allow.Base != nil {
			bok, _, _ = c.Allow.Base.Model(c.Code)
		}
		if bok != (c.State == "true") {
			res.Classes = append(res.Classes, "override-flips-base")
			res.NonTrivial = true
		}
	}
	return res
}

var gridSpec = kit.Spec[GridCase]{
	Prop: "C04",
	Name: "grid",
	Rule: "exhaustive: every code of the multihash registry plus 64 unknown codes x every digest length 0..256 (synthetic CIDs) x {default, NewAllowlist, NewOverridingAllowlist over default/set/nil/caller-implemented bounds, caller-implemented bounds} x {code absent from / true in / false in the set}; one case = one (code, allowlist) pair swept over all 257 lengths; non-trivial = both accepted and rejected lengths occur, or the set entry flips the base verdict",
	Run:  runGrid,
	Sample: func(c GridCase) any {
		return map[string]any{"code": c.Code, "kind": c.Allow.Kind, "state": c.State, "set_size": len(c.Allow.Set)}
	},
}

// gridRandom holds the randomly chosen parts of the grid (drawn through rapid from the run
// seed so that shards of the thorough tier use different ones).
type gridRandom struct {
	Unknown []uint64
	RestA   []Entry // background map for "set" and the base of over(set)
	RestB   []Entry // background map for the overriding layer
	Bounds  []Bound
	DefMin  int
	DefMax  int
}

func allCodes() []uint64 {
	var cs []uint64
	for c := range mh.Codes {
		cs = append(cs, c)
	}
	sort.Slice(cs, func(i, j int) bool { return cs[i] < cs[j] })
	return cs
}

func genUnknownCode(t *rapid.T) uint64 {
	return rapid.OneOf(
		rapid.Uint64Range(1, 0xff),
		rapid.Uint64Range(0x100, 0xffff),
		rapid.Uint64Range(0xb1f0, 0xb270), // around the blake2 ranges
		rapid.Uint64Range(0x10000, 1<<62),
	).Filter(func(c uint64) bool { _, known := mh.Codes[c]; return !known }).Draw(t, "unknown")
}

func genBound(t *rapid.T, code uint64) Bound {
	lo := rapid.IntRange(0, 140).Draw(t, "min")
	hi := rapid.IntRange(lo, 260).Draw(t, "max")
	return Bound{Code: code, Ok: rapid.IntRange(0, 3).Draw(t, "ok") != 0, Min: lo, Max: hi}
}

func genGridRandom(t *rapid.T) gridRandom {
	var g gridRandom
	seen := map[uint64]bool{}
	for len(g.Unknown) < 64 {
		c := genUnknownCode(t)
		if !seen[c] {
			seen[c] = true
			g.Unknown = append(g.Unknown, c)
		}
	}
	universe := append(allCodes(), g.Unknown...)
	pick := func(label string) []Entry {
		var es []Entry
		for _, c := range universe {
			if rapid.IntRange(0, 5).Draw(t, label) == 0 {
				es = append(es, Entry{c, rapid.Bool().Draw(t, "ok")})
			}
		}
		return es
	}
	g.RestA = pick("a")
	g.RestB = pick("b")
	for _, c := range universe {
		if rapid.IntRange(0, 2).Draw(t, "brow") == 0 {
			g.Bounds = append(g.Bounds, genBound(t, c))
		}
	}
	g.DefMin = rapid.IntRange(0, 40).Draw(t, "defmin")
	g.DefMax = rapid.IntRange(g.DefMin, 200).Draw(t, "defmax")
	return g
}

func withState(rest []Entry, code uint64, state string) []Entry {
	out := make([]Entry, 0, len(rest)+1)
	for _, e := range rest {
		if e.Code != code {
			out = append(out, e)
		}
	}
	switch state {
	case "true":
		out = append(out, Entry{code, true})
	case "false":
		out = append(out, Entry{code, false})
	}
	return out
}

func TestPropGrid(t *testing.T) {
	t.Run("replay", func(t *testing.T) { kit.Replay(t, gridSpec) })
	t.Run("findings", func(t *testing.T) { kit.RunFindings(t, gridSpec) })
	t.Run("search", func(t *testing.T) {
		seed, _ := strconv.ParseUint(os.Getenv("VERIF_SEED_EFF"), 10, 64)
		shard, _ := strconv.ParseUint(kit.Shard(), 10, 64)
		g := rapid.Custom(genGridRandom).Example(int((seed*1000003 + shard*7919) % (1 << 31)))
		codes := append(allCodes(), g.Unknown...)
		cells := 0
		kit.Exhaustive(t, gridSpec, func(yield func(GridCase) bool) {
			bounds := AllowSpec{Kind: "bounds", Bounds: g.Bounds, DefMin: g.DefMin, DefMax: g.DefMax}
			def := AllowSpec{Kind: "default"}
			for _, code := range codes {
				cells += maxLen + 1
				if !yield(GridCase{Code: code, Allow: def, State: "n/a"}) {
					return
				}
				if !yield(GridCase{Code: code, Allow: bounds, State: "n/a"}) {
					return
				}
				for _, st := range []string{"absent", "true", "false"} {
					setA := AllowSpec{Kind: "set", Set: withState(g.RestA, code, st)}
					baseA := AllowSpec{Kind: "set", Set: g.RestA}
					list := []AllowSpec{
						setA,
						{Kind: "over", Base: &def, Set: withState(g.RestB, code, st)},
						{Kind: "over", Base: &baseA, Set: withState(g.RestB, code, st)},
						{Kind: "over", Base: nil, Set: withState(g.RestB, code, st)},
						{Kind: "over", Base: &bounds, Set: withState(g.RestB, code, st)},
					}
					for _, a := range list {
						if !yield(GridCase{Code: code, Allow: a, State: st}) {
							return
						}
					}
				}
			}
		})
		kit.Note("C04", "grid", "codes", len(codes))
		kit.Note("C04", "grid", "lengths_per_case", maxLen+1)
		kit.Note("C04", "grid", "distinct_code_length_cells", cells)
	})
}

// ---------------------------------------------------------------------------
// sub-check "service"

type BlockSpec struct {
	Data []byte         `json:"data"`
	P    kit.PrefixSpec `json:"p"`
}

type Op struct {
	Kind string `json:"kind"` // add | addmany | get | getmany | delete
	Path string `json:"path"` // direct | session | ctxsession | embed   (get / getmany)
	Idx  []int  `json:"idx"`  // indices into Blocks
}

type SvcCase struct {
	Allow           AllowSpec   `json:"allow"`
	WriteThrough    bool        `json:"write_through"`
	SessionExchange bool        `json:"session_exchange"`
	Blocks          []BlockSpec `json:"blocks"`
	Seeded          []int       `json:"seeded"`  // put straight into the blockstore before the history (may be rejected ones)
	Missing         []int       `json:"missing"` // blocks the exchange does not have
	Ops             []Op        `json:"ops"`
	// Eager: on a batched fetch the exchange also delivers every other pool block it has
	// (an over-eager or hostile peer), including blocks whose CID the validator rejects
	Eager bool `json:"eager,omitempty"`
}

// hash functions with a registered implementation, and digest lengths around the limits.
type hashChoice struct {
	code uint64
	lens []int // -1 = full length
}

var hashChoices = []hashChoice{
	{0x12, []int{-1, -1, 20, 19, 16, 21}}, // sha2-256
	{0x13, []int{-1, 32, 20, 19}},         // sha2-512
	{0x11, []int{-1, 19}},                 // sha1
	{0xd5, []int{-1}},                     // md5 (16)
	{0x16, []int{-1, 19}},                 // sha3-256
	{0x1b, []int{-1}},                     // keccak-256
	{0xb220, []int{-1, 20, 19}},           // blake2b-256
	{0xb210, []int{-1}},                   // blake2b-128
	{0xb214, []int{-1}},                   // blake2b-160
	{0xb213, []int{-1}},                   // blake2b-152
	{0xb260, []int{-1}},                   // blake2s-256
	{0x1e, []int{-1, 64, 20, 19}},         // blake3
	{0x22, []int{-1}},                     // murmur3-x64-64
	{0x56, []int{-1}},                     // dbl-sha2-256
	{0x00, []int{-1, -1, -1}},             // identity (length = len(data))
}

func svcCodes() []uint64 {
	var cs []uint64
	for _, h := range hashChoices {
		cs = append(cs, h.code)
	}
	return cs
}

func genBlock(t *rapid.T) BlockSpec {
	if rapid.IntRange(0, 7).Draw(t, "v0") == 0 {
		return BlockSpec{Data: kit.Bytes(40).Draw(t, "data"), P: kit.PrefixSpec{Version: 0, Codec: cid.DagProtobuf, MhType: 0x12, MhLength: 32}}
	}
	h := rapid.SampledFrom(hashChoices).Draw(t, "hash")
	l := rapid.SampledFrom(h.lens).Draw(t, "mhlen")
	codec := rapid.SampledFrom([]uint64{cid.Raw, cid.DagProtobuf, cid.DagCBOR}).Draw(t, "codec")
	var data []byte
	if h.code == 0 {
		// identity: digest length = data length; straddle the 128 byte cap
		n := rapid.OneOf(rapid.IntRange(0, 40), rapid.IntRange(126, 131), rapid.IntRange(0, 200)).Draw(t, "idlen")
		data = kit.FillBytes(t, n)
	} else {
		data = kit.Bytes(60).Draw(t, "data")
	}
	return BlockSpec{Data: data, P: kit.PrefixSpec{Version: 1, Codec: codec, MhType: h.code, MhLength: l}}
}

func genEntries(t *rapid.T, label string) []Entry {
	var es []Entry
	for _, c := range svcCodes() {
		switch rapid.IntRange(0, 4).Draw(t, label) {
		case 0, 1:
			es = append(es, Entry{c, true})
		case 2:
			es = append(es, Entry{c, false})
		}
	}
	return es
}

func genBoundsSpec(t *rapid.T) AllowSpec {
	a := AllowSpec{Kind: "bounds"}
	for _, c := range svcCodes() {
		if rapid.IntRange(0, 3).Draw(t, "brow") != 0 {
			lo := rapid.SampledFrom([]int{0, 8, 16, 17, 20, 21, 32, 33}).Draw(t, "min")
			hi := lo + rapid.SampledFrom([]int{0, 1, 4, 12, 16, 32, 48, 100, 200}).Draw(t, "span")
			a.Bounds = append(a.Bounds, Bound{Code: c, Ok: rapid.IntRange(0, 4).Draw(t, "ok") != 0, Min: lo, Max: hi})
		}
	}
	a.DefMin = rapid.IntRange(0, 32).Draw(t, "defmin")
	a.DefMax = rapid.IntRange(a.DefMin, 200).Draw(t, "defmax")
	return a
}

func genAllow(t *rapid.T) AllowSpec {
	switch rapid.IntRange(0, 6).Draw(t, "alkind") {
	case 0, 1:
		return AllowSpec{Kind: "default"}
	case 2:
		return AllowSpec{Kind: "set", Set: genEntries(t, "set")}
	case 3:
		return AllowSpec{Kind: "over", Base: &AllowSpec{Kind: "default"}, Set: genEntries(t, "ov")}
	case 4:
		b := genBoundsSpec(t)
		return AllowSpec{Kind: "over", Base: &b, Set: genEntries(t, "ov")}
	case 5:
		return genBoundsSpec(t)
	default:
		if rapid.Bool().Draw(t, "nilbase") {
			return AllowSpec{Kind: "over", Set: genEntries(t, "ov")}
		}
		return AllowSpec{Kind: "over", Base: &AllowSpec{Kind: "set", Set: genEntries(t, "base")}, Set: genEntries(t, "ov")}
	}
}

func genSvc(t *rapid.T) SvcCase {
	var c SvcCase
	c.Allow = genAllow(t)
	c.WriteThrough = rapid.Bool().Draw(t, "wt")
	c.SessionExchange = rapid.Bool().Draw(t, "sesex")
	c.Eager = rapid.IntRange(0, 2).Draw(t, "eager") == 0
	n := rapid.IntRange(3, 12).Draw(t, "nblocks")
	for i := 0; i < n; i++ {
		c.Blocks = append(c.Blocks, genBlock(t))
	}
	idx := rapid.IntRange(0, n-1)
	c.Seeded = rapid.SliceOfNDistinct(idx, 0, n, rapid.ID[int]).Draw(t, "seeded")
	if rapid.Bool().Draw(t, "anymissing") {
		c.Missing = rapid.SliceOfNDistinct(idx, 0, n/3, rapid.ID[int]).Draw(t, "missing")
	}
	maxBatch := kit.Scale(12, 12)
	nops := rapid.IntRange(1, kit.Scale(14, 30)).Draw(t, "nops")
	for i := 0; i < nops; i++ {
		var op Op
		op.Kind = rapid.SampledFrom([]string{"add", "addmany", "addmany", "get", "get", "getmany", "getmany", "getmany", "delete"}).Draw(t, "op")
		switch op.Kind {
		case "add", "delete":
			op.Idx = []int{idx.Draw(t, "i")}
		case "get":
			op.Idx = []int{idx.Draw(t, "i")}
			op.Path = rapid.SampledFrom([]string{"direct", "session", "ctxsession", "embed"}).Draw(t, "path")
		case "addmany":
			op.Idx = rapid.SliceOfN(idx, 0, maxBatch).Draw(t, "batch")
		case "getmany":
			op.Idx = rapid.SliceOfN(idx, 0, maxBatch).Draw(t, "batch")
			op.Path = rapid.SampledFrom([]string{"direct", "session", "ctxsession", "embed"}).Draw(t, "path")
		}
		c.Ops = append(c.Ops, op)
	}
	return c
}

// recBS records what the block service writes into the blockstore.
type recBS struct {
	blockstore.Blockstore
	mu   sync.Mutex
	puts []cid.Cid
}

func (r *recBS) Put(ctx context.Context, b blocks.Block) error {
	r.mu.Lock()
	r.puts = append(r.puts, b.Cid())
	r.mu.Unlock()
	return r.Blockstore.Put(ctx, b)
}

func (r *recBS) PutMany(ctx context.Context, bs []blocks.Block) error {
	r.mu.Lock()
	for _, b := range bs {
		r.puts = append(r.puts, b.Cid())
	}
	r.mu.Unlock()
	return r.Blockstore.PutMany(ctx, bs)
}

func (r *recBS) takePuts() []cid.Cid {
	r.mu.Lock()
	defer r.mu.Unlock()
	p := r.puts
	r.puts = nil
	return p
}

// recExchange is an honest exchange that has a fixed set of blocks (by multihash) and logs
// every CID it is asked for, through the exchange itself or through a session fetcher.
type recExchange struct {
	mu       sync.Mutex
	have     map[string][]byte // multihash -> data
	asked    []cid.Cid
	sessions int
	extras   []blocks.Block // delivered unasked on every batched fetch (Eager)
}

type recFetcher struct{ ex *recExchange }

func (e *recExchange) fetchOne(c cid.Cid) (blocks.Block, error) {
	e.mu.Lock()
	e.asked = append(e.asked, c)
	data, ok := e.have[string(c.Hash())]
	e.mu.Unlock()
	if !ok {
		return nil, ipld.ErrNotFound{Cid: c}
	}
	return blocks.NewBlockWithCid(data, c)
}

func (e *recExchange) fetchMany(ks []cid.Cid) (<-chan blocks.Block, error) {
	out := make(chan blocks.Block, len(ks)+len(e.extras))
	req := map[string]bool{}
	for _, k := range ks {
		req[k.KeyString()] = true
		if b, err := e.fetchOne(k); err == nil {
			out <- b
		}
	}
	for _, b := range e.extras {
		if !req[b.Cid().KeyString()] {
			out <- b
		}
	}
	close(out)
	return out, nil
}

func (e *recExchange) takeAsked() []cid.Cid {
	e.mu.Lock()
	defer e.mu.Unlock()
	a := e.asked
	e.asked = nil
	return a
}

func (f recFetcher) GetBlock(_ context.Context, c cid.Cid) (blocks.Block, error) {
	return f.ex.fetchOne(c)
}
func (f recFetcher) GetBlocks(_ context.Context, ks []cid.Cid) (<-chan blocks.Block, error) {
	return f.ex.fetchMany(ks)
}

// plainEx implements exchange.Interface only; sessEx also exchange.SessionExchange.
type plainEx struct{ recFetcher }

func (plainEx) NotifyNewBlocks(context.Context, ...blocks.Block) error { return nil }
func (plainEx) Close() error                                           { return nil }

type sessEx struct{ plainEx }

func (s sessEx) NewSession(context.Context) exchange.Fetcher {
	s.ex.mu.Lock()
	s.ex.sessions++
	s.ex.mu.Unlock()
	return recFetcher{s.ex}
}

var (
	_ exchange.Interface       = plainEx{}
	_ exchange.SessionExchange = sessEx{}
)

func posClass(i, n int) string {
	switch {
	case n == 1:
		return "only"
	case i == 0:
		return "first"
	case i == n-1:
		return "last"
	}
	return "middle"
}

func runSvc(c SvcCase) kit.Result {
	ctx, cancel := context.WithCancel(context.Background())
	defer cancel()

	al := c.Allow.Build()
	n := len(c.Blocks)
	blks := make([]blocks.Block, n)
	rejected := make([]bool, n)
	nrej := 0
	for i, b := range c.Blocks {
		blks[i] = kit.Block(b.Data, b.P)
		dm, err := mh.Decode(blks[i].Cid().Hash())
		if err != nil {
			return kit.Result{Err: fmt.Errorf("harness: %v", err)}
		}
		acc, err := checkCid(&c.Allow, al, blks[i].Cid(), dm.Code, dm.Length)
		if err != nil {
			return kit.Fail("block %d (%s): %v", i, blks[i].Cid(), err)
		}
		rejected[i] = !acc
		if !acc {
			nrej++
		}
	}
	// "rejected" is decided per CID; two pool entries may share a CID
	isRejected := func(k cid.Cid) bool { return verifcid.ValidateCid(al, k) != nil }

	inner := blockstore.NewBlockstore(dssync.MutexWrap(ds.NewMapDatastore()))
	for _, i := range c.Seeded {
		if err := inner.Put(ctx, blks[i]); err != nil {
			return kit.Result{Err: fmt.Errorf("harness: seed put: %v", err)}
		}
	}
	rbs := &recBS{Blockstore: inner}
	ex := &recExchange{have: map[string][]byte{}}
	missing := map[int]bool{}
	for _, i := range c.Missing {
		missing[i] = true
	}
	for i, b := range blks {
		if !missing[i] {
			ex.have[string(b.Cid().Hash())] = b.RawData()
			if c.Eager {
				ex.extras = append(ex.extras, b)
			}
		}
	}
	var exi exchange.Interface = plainEx{recFetcher{ex}}
	if c.SessionExchange {
		exi = sessEx{plainEx{recFetcher{ex}}}
	}
	svc := blockservice.New(rbs, exi, blockservice.WithAllowlist(al), blockservice.WriteThrough(c.WriteThrough))

	res := kit.Result{}
	cls := map[string]bool{"allow:" + c.Allow.Kind: true}
	if c.Eager {
		cls["exchange-eager"] = true
	}
	if nrej == 0 {
		cls["pool-all-accepted"] = true
	} else if nrej == n {
		cls["pool-all-rejected"] = true
	}

	getter := func(path string) (blockservice.BlockGetter, context.Context) {
		switch path {
		case "session":
			return blockservice.NewSession(ctx, svc), ctx
		case "ctxsession":
			return svc, blockservice.ContextWithSession(ctx, svc)
		case "embed":
			return svc, blockservice.EmbedSessionInContext(ctx, blockservice.NewSession(ctx, svc))
		}
		return svc, ctx
	}

	// invariant after every op: the service wrote no rejected CID and asked the exchange for none
	checkLogs := func(opi int, op Op) error {
		for _, k := range rbs.takePuts() {
			if isRejected(k) {
				return fmt.Errorf("op %d %s%v: block service stored rejected CID %s", opi, op.Kind, op.Idx, k)
			}
		}
		for _, k := range ex.takeAsked() {
			if isRejected(k) {
				return fmt.Errorf("op %d %s(%s)%v: block service asked the exchange for rejected CID %s", opi, op.Kind, op.Path, op.Idx, k)
			}
		}
		return nil
	}
	localHas := func(k cid.Cid) bool {
		h, err := inner.Has(ctx, k)
		return err == nil && h
	}
	available := func(i int) bool { // can an honest lookup produce block i right now?
		if localHas(blks[i].Cid()) {
			return true
		}
		_, ok := ex.have[string(blks[i].Cid().Hash())]
		return ok
	}

	for opi, op := range c.Ops {
		mixed := false
		if len(op.Idx) > 1 {
			a, r := false, false
			for _, i := range op.Idx {
				if isRejected(blks[i].Cid()) {
					r = true
				} else {
					a = true
				}
			}
			mixed = a && r
		}
		switch op.Kind {
		case "add":
			i := op.Idx[0]
			before := localHas(blks[i].Cid())
			err := svc.AddBlock(ctx, blks[i])
			if isRejected(blks[i].Cid()) {
				cls["add-rejected"] = true
				if !before && localHas(blks[i].Cid()) {
					return kit.Fail("op %d: AddBlock stored rejected CID %s (err=%v)", opi, blks[i].Cid(), err)
				}
			} else {
				if err != nil {
					return kit.Fail("op %d: AddBlock of accepted CID %s failed: %v", opi, blks[i].Cid(), err)
				}
				if !localHas(blks[i].Cid()) {
					return kit.Fail("op %d: AddBlock of accepted CID %s returned nil but the block is not stored", opi, blks[i].Cid())
				}
			}
		case "addmany":
			batch := make([]blocks.Block, len(op.Idx))
			before := make([]bool, len(op.Idx))
			anyRej := false
			for j, i := range op.Idx {
				batch[j] = blks[i]
				before[j] = localHas(blks[i].Cid())
				if isRejected(blks[i].Cid()) {
					anyRej = true
					cls["addmany-rejected-"+posClass(j, len(op.Idx))] = true
				}
			}
			err := svc.AddBlocks(ctx, batch)
			for j, i := range op.Idx {
				k := blks[i].Cid()
				if isRejected(k) && !before[j] && localHas(k) {
					return kit.Fail("op %d: AddBlocks%v stored rejected CID %s (position %d, err=%v)", opi, op.Idx, k, j, err)
				}
			}
			if !anyRej {
				if err != nil {
					return kit.Fail("op %d: AddBlocks%v of accepted CIDs failed: %v", opi, op.Idx, err)
				}
				for _, i := range op.Idx {
					if !localHas(blks[i].Cid()) {
						return kit.Fail("op %d: AddBlocks%v returned nil but %s is not stored", opi, op.Idx, blks[i].Cid())
					}
				}
			}
			if mixed {
				res.NonTrivial = true
				cls["addmany-mixed"] = true
			}
		case "delete":
			_ = svc.DeleteBlock(ctx, blks[op.Idx[0]].Cid())
		case "get":
			i := op.Idx[0]
			k := blks[i].Cid()
			wasLocal := localHas(k)
			avail := available(i)
			g, gctx := getter(op.Path)
			b, err := g.GetBlock(gctx, k)
			cls["get-"+op.Path] = true
			if isRejected(k) {
				if wasLocal {
					cls["get-rejected-local"] = true
				} else {
					cls["get-rejected-remote"] = true
				}
				if b != nil {
					return kit.Fail("op %d: GetBlock(%s) returned a block for rejected CID %s (err=%v)", opi, op.Path, k, err)
				}
				if err == nil {
					return kit.Fail("op %d: GetBlock(%s) of rejected CID %s returned neither block nor error", opi, op.Path, k)
				}
			} else if avail {
				if err != nil || b == nil {
					return kit.Fail("op %d: GetBlock(%s) of accepted, available CID %s failed: %v", opi, op.Path, k, err)
				}
				if !b.Cid().Equals(k) || !bytes.Equal(b.RawData(), blks[i].RawData()) {
					return kit.Fail("op %d: GetBlock(%s) of %s returned block %s with other content", opi, op.Path, k, b.Cid())
				}
			} else if b != nil && isRejected(b.Cid()) {
				return kit.Fail("op %d: GetBlock(%s) returned rejected CID %s", opi, op.Path, b.Cid())
			}
		case "getmany":
			ks := make([]cid.Cid, len(op.Idx))
			want := map[string]int{} // accepted + available CIDs that must be delivered
			requested := map[string]bool{}
			for j, i := range op.Idx {
				ks[j] = blks[i].Cid()
				requested[ks[j].KeyString()] = true
				if isRejected(ks[j]) {
					cls["getmany-rejected-"+posClass(j, len(op.Idx))] = true
					if localHas(ks[j]) {
						cls["getmany-rejected-local"] = true
					}
				} else if available(i) {
					want[ks[j].KeyString()] = i
				}
			}
			ksCopy := append([]cid.Cid(nil), ks...)
			g, gctx := getter(op.Path)
			cls["getmany-"+op.Path] = true
			got := map[string]bool{}
			for b := range g.GetBlocks(gctx, ks) {
				k := b.Cid()
				if isRejected(k) {
					return kit.Fail("op %d: GetBlocks(%s)%v emitted rejected CID %s", opi, op.Path, op.Idx, k)
				}
				if !requested[k.KeyString()] {
					return kit.Fail("op %d: GetBlocks(%s)%v emitted CID %s that was not requested", opi, op.Path, op.Idx, k)
				}
				if i, ok := want[k.KeyString()]; ok && !bytes.Equal(b.RawData(), blks[i].RawData()) {
					return kit.Fail("op %d: GetBlocks(%s)%v emitted %s with other content", opi, op.Path, op.Idx, k)
				}
				got[k.KeyString()] = true
			}
			for j := range ks {
				if !ks[j].Equals(ksCopy[j]) {
					return kit.Fail("op %d: GetBlocks(%s)%v modified the caller's key slice at %d", opi, op.Path, op.Idx, j)
				}
			}
			// deterministic order for the report
			var lost []string
			for ks, i := range want {
				if !got[ks] {
					lost = append(lost, fmt.Sprintf("%d:%s", i, blks[i].Cid()))
				}
			}
			if len(lost) > 0 {
				sort.Strings(lost)
				return kit.Fail("op %d: GetBlocks(%s)%v did not deliver accepted, available block(s) %v", opi, op.Path, op.Idx, lost)
			}
			if mixed {
				res.NonTrivial = true
				cls["getmany-mixed"] = true
			}
		}
		if err := checkLogs(opi, op); err != nil {
			return kit.Result{Err: err}
		}
	}
	// final sweep: nothing rejected is in the store unless the harness seeded it
	seeded := map[string]bool{}
	for _, i := range c.Seeded {
		seeded[string(blks[i].Cid().Hash())] = true
	}
	for i, b := range blks {
		if rejected[i] && !seeded[string(b.Cid().Hash())] && localHas(b.Cid()) {
			return kit.Fail("after the history the blockstore holds rejected CID %s (block %d)", b.Cid(), i)
		}
	}
	for k := range cls {
		res.Classes = append(res.Classes, k)
	}
	sort.Strings(res.Classes)
	return res
}

var svcSpec = kit.Spec[SvcCase]{
	Prop:     "C04",
	Name:     "service",
	Rule:     "random allowlist (default / NewAllowlist / overriding / caller-implemented bounds), pool of 3..12 honest blocks over 15 hash functions with digest lengths around the limits, blockstore pre-seeded with arbitrary (also rejected) blocks, honest recording exchange holding the rejected blocks; history of AddBlock/AddBlocks/GetBlock/GetBlocks/DeleteBlock, gets through the service, NewSession, ContextWithSession, EmbedSessionInContext; non-trivial = some AddBlocks/GetBlocks batch mixes accepted and rejected CIDs",
	Quick:    10000,
	Thorough: 200000,
	Gen:      genSvc,
	Run:      runSvc,
}

func TestPropService(t *testing.T) { kit.All(t, svcSpec) }
