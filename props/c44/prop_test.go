package c44

import (
	"context"
	"crypto/sha256"
	"encoding/binary"
	"errors"
	"fmt"
	"regexp"
	"runtime"
	"sort"
	"strings"
	"sync"
	"sync/atomic"
	"testing"
	"time"

	"github.com/ipfs/boxo/provider"
	"github.com/ipfs/boxo/verifcid"
	"github.com/ipfs/go-cid"
	"github.com/ipfs/go-datastore"
	dssync "github.com/ipfs/go-datastore/sync"
	mh "github.com/multiformats/go-multihash"
	"pgregory.net/rapid"
	"verif/kit"
)

func TestMain(m *testing.M) { kit.Main(m) }

// knownF17 is the known-finding key of DESIGN §7-F17: an effective batch size of 0
// (MaxBatchSize(0) on a ProvideMany router, or ThroughputReport(f, 0)) makes Reprovide
// spin without ever reading the key channel until its context ends.
const knownF17 = "F17-zero-batch-spin"

// ---------------------------------------------------------------------------
// keys

// Key is a synthetic CID: multihash code, digest length, payload number and CID form.
// The digest bytes are derived from N only, so equal (Code, Len, N) means equal multihash.
type Key struct {
	Code uint64 `json:"c"`
	Len  int    `json:"l"`
	N    int    `json:"n"`
	Form int    `json:"f"` // 0 CIDv1 raw, 1 CIDv1 dag-pb, 2 CIDv0 (sha2-256/32 only, else as 0)
}

func digest(n, l int) []byte {
	out := make([]byte, 0, l+32)
	for ctr := uint32(0); len(out) < l; ctr++ {
		var b [12]byte
		binary.BigEndian.PutUint64(b[:8], uint64(n))
		binary.BigEndian.PutUint32(b[8:], ctr)
		s := sha256.Sum256(b[:])
		out = append(out, s[:]...)
	}
	return out[:l]
}

func (k Key) Cid() cid.Cid {
	h, err := mh.Encode(digest(k.N, k.Len), k.Code)
	if err != nil {
		panic(err)
	}
	switch {
	case k.Form == 2 && k.Code == mh.SHA2_256 && k.Len == 32:
		return cid.NewCidV0(h)
	case k.Form == 1:
		return cid.NewCidV1(cid.DagProtobuf, h)
	default:
		return cid.NewCidV1(cid.Raw, h)
	}
}

// hash codes used by the generator and their status under verifcid.DefaultAllowlist
// (verifcid/allowlist.go: sha1, sha2-256/512, sha3, blake3, identity, blake2b >= 160 bit
// are allowed; md5, murmur3, short blake2b and unknown codes are not).
var defaultAllowed = map[uint64]bool{
	mh.SHA2_256:         true,
	mh.SHA2_512:         true,
	mh.SHA3_256:         true,
	mh.SHA1:             true,
	mh.BLAKE3:           true,
	mh.IDENTITY:         true,
	mh.BLAKE2B_MIN + 31: true, // blake2b-256
	mh.BLAKE2B_MIN + 19: true, // blake2b-160 (first allowed)
	mh.MD5:              false,
	mh.MURMUR3X64_64:    false,
	mh.BLAKE2B_MIN + 15: false, // blake2b-128
	mh.BLAKE2B_MIN + 18: false, // blake2b-152 (last rejected)
	0x9999:              false, // unassigned code
}

var codePool = func() []uint64 {
	var l []uint64
	for c := range defaultAllowed {
		l = append(l, c)
	}
	sort.Slice(l, func(i, j int) bool { return l[i] < l[j] })
	return l
}()

type AllowEntry struct {
	Code uint64 `json:"code"`
	Ok   bool   `json:"ok"`
}

// allowed is the reference allow decision (independent of verifcid): hash code allowed
// by the configured list, digest length in [20,128] (identity: [0,128]).
func allowed(k Key, kind string, entries []AllowEntry) bool {
	ok := defaultAllowed[k.Code]
	switch kind {
	case "only":
		ok = false
		for _, e := range entries {
			if e.Code == k.Code {
				ok = e.Ok
			}
		}
	case "override":
		for _, e := range entries {
			if e.Code == k.Code {
				ok = e.Ok
			}
		}
	}
	if !ok {
		return false
	}
	min := 20
	if k.Code == mh.IDENTITY {
		min = 0
	}
	return k.Len >= min && k.Len <= 128
}

func makeAllowlist(kind string, entries []AllowEntry) verifcid.Allowlist {
	m := map[uint64]bool{}
	for _, e := range entries {
		m[e.Code] = e.Ok
	}
	switch kind {
	case "only":
		return verifcid.NewAllowlist(m)
	case "override":
		return verifcid.NewOverridingAllowlist(verifcid.DefaultAllowlist, m)
	}
	return nil
}

func genKey(t *rapid.T, pool int) Key {
	k := Key{N: rapid.IntRange(0, pool).Draw(t, "n"), Form: rapid.IntRange(0, 2).Draw(t, "form")}
	switch rapid.IntRange(0, 19).Draw(t, "keyclass") {
	default: // plain sha2-256
		k.Code, k.Len = mh.SHA2_256, 32
	case 10, 11: // other code from the pool with its natural length
		k.Code = rapid.SampledFrom(codePool).Draw(t, "code")
		k.Len = natLen(k.Code)
	case 12, 13: // rejected hash function
		k.Code = rapid.SampledFrom([]uint64{mh.MD5, mh.MURMUR3X64_64, mh.BLAKE2B_MIN + 15, mh.BLAKE2B_MIN + 18, 0x9999}).Draw(t, "badcode")
		k.Len = natLen(k.Code)
	case 14, 15: // digest length on the boundary 19/20 and 128/129
		k.Code = rapid.SampledFrom([]uint64{mh.SHA2_256, mh.SHA2_512, mh.SHA3_256}).Draw(t, "code")
		k.Len = rapid.SampledFrom([]int{0, 1, 16, 19, 20, 21, 64, 127, 128, 129, 200}).Draw(t, "len")
	case 16, 17: // identity, boundary 128/129
		k.Code = mh.IDENTITY
		k.Len = rapid.SampledFrom([]int{0, 1, 19, 36, 127, 128, 129, 300}).Draw(t, "idlen")
	}
	return k
}

func natLen(code uint64) int {
	switch code {
	case mh.SHA2_512:
		return 64
	case mh.SHA1, mh.BLAKE2B_MIN + 19:
		return 20
	case mh.MD5, mh.BLAKE2B_MIN + 15:
		return 16
	case mh.MURMUR3X64_64:
		return 8
	case mh.BLAKE2B_MIN + 18:
		return 19
	case mh.IDENTITY:
		return 24
	}
	return 32
}

func genStream(t *rapid.T, max int) []Key {
	n := kit.Length(max).Draw(t, "nkeys")
	pool := rapid.SampledFrom([]int{3, 10, 50, 400}).Draw(t, "pool")
	ks := make([]Key, n)
	for i := range ks {
		ks[i] = genKey(t, pool)
	}
	return ks
}

func genAllow(t *rapid.T) (string, []AllowEntry) {
	kind := rapid.SampledFrom([]string{"default", "default", "default", "only", "override"}).Draw(t, "allowkind")
	if kind == "default" {
		return kind, nil
	}
	n := rapid.IntRange(0, 4).Draw(t, "nallow")
	var es []AllowEntry
	seen := map[uint64]bool{}
	for i := 0; i < n; i++ {
		c := rapid.SampledFrom(codePool).Draw(t, "acode")
		if seen[c] {
			continue
		}
		seen[c] = true
		es = append(es, AllowEntry{c, rapid.Bool().Draw(t, "aok")})
	}
	if kind == "only" && rapid.Bool().Draw(t, "withsha256") && !seen[mh.SHA2_256] {
		es = append(es, AllowEntry{mh.SHA2_256, true})
	}
	return kind, es
}

// ---------------------------------------------------------------------------
// key streams as KeyChanFuncs (producer goroutines that honour ctx like real providers)

type producers struct {
	mu      sync.Mutex
	dones   []chan struct{} // one per started goroutine
	sent    atomic.Int64    // keys handed over by the source streams
	relayed atomic.Int64    // keys handed over by relay()
}

func (p *producers) register() chan struct{} {
	d := make(chan struct{})
	p.mu.Lock()
	p.dones = append(p.dones, d)
	p.mu.Unlock()
	return d
}

// wait blocks until every goroutine started so far (and any started meanwhile) has ended.
// Callers invoke it after the consumer of the outermost channel has seen it closed or after
// the context was cancelled, so the set of goroutines is final once the last one ends.
func (p *producers) wait() {
	for i := 0; ; i++ {
		p.mu.Lock()
		if i >= len(p.dones) {
			p.mu.Unlock()
			return
		}
		d := p.dones[i]
		p.mu.Unlock()
		<-d
	}
}

// relay forwards the keys of inner one by one and counts the hand-overs to its consumer.
func (p *producers) relay(inner provider.KeyChanFunc) provider.KeyChanFunc {
	return func(ctx context.Context) (<-chan cid.Cid, error) {
		in, err := inner(ctx)
		if err != nil {
			return nil, err
		}
		ch := make(chan cid.Cid)
		done := p.register()
		go func() {
			defer close(done)
			defer close(ch)
			for k := range in {
				select {
				case ch <- k:
					p.relayed.Add(1)
				case <-ctx.Done():
					return
				}
			}
		}()
		return ch, nil
	}
}

func (p *producers) stream(keys []cid.Cid, fail bool) provider.KeyChanFunc {
	return func(ctx context.Context) (<-chan cid.Cid, error) {
		if fail {
			return nil, errors.New("stream unavailable")
		}
		ch := make(chan cid.Cid)
		done := p.register()
		go func() {
			defer close(done)
			defer close(ch)
			for _, k := range keys {
				select {
				case ch <- k:
					p.sent.Add(1)
				case <-ctx.Done():
					return
				}
			}
		}()
		return ch, nil
	}
}

// ---------------------------------------------------------------------------
// recording routers

type event struct {
	batch  int  // >0: a ProvideMany/Provide call with that many keys; 0: callback
	cbRet  bool // callback return value
	failed bool // the router call returned errRouter
}

// errRouter is what a router call returns at the call indices listed in Case.FailAt: a
// transient failure of the routing system (the keys were handed over, the announcement
// failed). Reprovide logs such an error and goes on with the next batch.
var errRouter = errors.New("injected transient router failure")

type recorder struct {
	mu     sync.Mutex
	keys   []string // multihashes (as strings) handed to the router in the current pass
	events []event
	failAt map[int64]bool // router call indices (0-based, over the life of the system) that fail
	calls  atomic.Int64
}

// add records one router call and returns the error the router answers with.
func (r *recorder) add(n int, hs ...mh.Multihash) error {
	r.mu.Lock()
	idx := r.calls.Load()
	fail := r.failAt[idx]
	for _, h := range hs {
		r.keys = append(r.keys, string(h))
	}
	r.events = append(r.events, event{batch: n, failed: fail})
	r.calls.Add(1)
	r.mu.Unlock()
	if fail {
		return errRouter
	}
	return nil
}

type manyRouter struct{ r *recorder }

func (m manyRouter) Provide(ctx context.Context, c cid.Cid, _ bool) error {
	// New() selects ProvideMany for reprovides; Provide is only used for the provide queue.
	return nil
}

func (m manyRouter) ProvideMany(ctx context.Context, keys []mh.Multihash) error {
	cp := make([]mh.Multihash, len(keys))
	copy(cp, keys)
	return m.r.add(len(keys), cp...)
}

type singleRouter struct{ r *recorder }

func (s singleRouter) Provide(ctx context.Context, c cid.Cid, _ bool) error {
	return s.r.add(1, c.Hash())
}

// ---------------------------------------------------------------------------
// watchdog

var goroutineHdr = regexp.MustCompile(`^goroutine \d+[^\[]*\[([^\],]+)`)

// frameState returns the scheduler state of the goroutine whose stack contains frame
// ("" if there is none).
func frameState(frame string) string {
	buf := make([]byte, 1<<20)
	for {
		n := runtime.Stack(buf, true)
		if n < len(buf) {
			buf = buf[:n]
			break
		}
		buf = make([]byte, 2*len(buf))
	}
	for _, g := range strings.Split(string(buf), "\n\n") {
		if strings.Contains(g, frame) {
			if m := goroutineHdr.FindStringSubmatch(g); m != nil {
				return m[1]
			}
		}
	}
	return ""
}

// pingPong performs n channel round trips between two fresh goroutines. Completing them
// shows that goroutines of this process are being scheduled, i.e. a goroutine that stays
// runnable meanwhile without advancing is busy, not starved by a loaded machine.
func pingPong(n int) {
	a, b := make(chan struct{}), make(chan struct{})
	go func() {
		for range a {
			b <- struct{}{}
		}
		close(b)
	}()
	for i := 0; i < n; i++ {
		a <- struct{}{}
		<-b
	}
	close(a)
	<-b
}

// spinning reports whether the goroutine executing frame is busy (running/runnable, never
// parked) in every one of several samples while progress() stays unchanged, although other
// goroutines of the process demonstrably get scheduled in between.
func spinning(frame string, progress func() int64) bool {
	p0 := progress()
	for i := 0; i < 5; i++ {
		st := frameState(frame)
		if st != "running" && st != "runnable" && st != "preempted" {
			return false
		}
		pingPong(100)
		time.Sleep(4 * time.Millisecond)
		if progress() != p0 {
			return false
		}
	}
	return true
}

type watchResult struct {
	finished bool  // call returned on its own
	err      error // its return value (also after cancellation)
	spin     bool  // stalled and confirmed busy-looping without progress
	returned bool  // returned after cancellation
}

// watch runs call(ctx) under a watchdog. The wall clock is used only to decide when to look
// for a stall; a stall is reported as spin only after the goroutine dump confirms the
// frame is busy and the progress counter does not move. A stall without that confirmation
// (blocked goroutine, starved machine) panics in the harness => INCONCLUSIVE, never a violation.
func watch(call func(ctx context.Context) error, frame string, progress func() int64, stallAfter time.Duration) watchResult {
	ctx, cancel := context.WithCancel(context.Background())
	defer cancel()
	done := make(chan error, 1)
	go func() { done <- call(ctx) }()
	tick := time.NewTicker(10 * time.Millisecond)
	defer tick.Stop()
	last, lastChange, start := progress(), time.Now(), time.Now()
	for {
		select {
		case err := <-done:
			return watchResult{finished: true, err: err}
		case <-tick.C:
		}
		if p := progress(); p != last {
			last, lastChange = p, time.Now()
			continue
		}
		if time.Since(lastChange) < stallAfter {
			continue
		}
		if spinning(frame, progress) {
			cancel()
			select {
			case err := <-done:
				return watchResult{err: err, spin: true, returned: true}
			case <-time.After(20 * time.Second):
				return watchResult{spin: true}
			}
		}
		if time.Since(start) > 5*time.Minute {
			panic("harness: call stalled for 5 minutes without a confirmed busy loop (inconclusive)")
		}
	}
}

// ---------------------------------------------------------------------------
// sub-check "reprovide"

type Case struct {
	Streams      [][]Key      `json:"streams"` // 1 stream: used directly; more: through NewPrioritizedProvider
	Router       string       `json:"router"`  // many | single
	HasMaxBatch  bool         `json:"has_max_batch"`
	MaxBatch     uint         `json:"max_batch"`
	HasThrough   bool         `json:"has_throughput"`
	ThroughMin   uint         `json:"throughput_min"`
	CbFalseAt    int          `json:"cb_false_at"` // callback returns false on its CbFalseAt-th call (-1 never)
	AllowKind    string       `json:"allow_kind"`
	AllowEntries []AllowEntry `json:"allow_entries"`
	Passes       int          `json:"passes"`
	// FailAt lists router call indices (0-based, counted over all passes of the case) at
	// which ProvideMany / Provide returns an error after having received its keys.
	FailAt []int `json:"fail_at,omitempty"`
}

var limitPool = []uint{1, 1, 2, 3, 4, 5, 7, 8, 10, 16, 33, 64, 100, 199, 200, 201, 1000}

func genLimit(t *rapid.T, label string) uint {
	// 0 is part of the quantifier ("batch limits 0..N"); it is drawn less often than
	// uniformly because every such case costs a watchdog interval while F17 is open.
	// (rapid favours the ends of an integer range, hence the comparison with a middle value)
	if rapid.IntRange(0, 40).Draw(t, label+"zero") == 23 {
		return 0
	}
	return rapid.SampledFrom(limitPool).Draw(t, label)
}

func gen(t *rapid.T) Case {
	c := Case{CbFalseAt: -1}
	ns := rapid.SampledFrom([]int{1, 1, 1, 1, 2, 3}).Draw(t, "nstreams")
	max := kit.Scale(200, 200)
	for i := 0; i < ns; i++ {
		c.Streams = append(c.Streams, genStream(t, max/ns))
	}
	c.Router = rapid.SampledFrom([]string{"many", "many", "single"}).Draw(t, "router")
	if c.HasMaxBatch = rapid.IntRange(0, 3).Draw(t, "hasmax") > 0; c.HasMaxBatch {
		c.MaxBatch = genLimit(t, "maxbatch")
	}
	if c.HasThrough = rapid.Bool().Draw(t, "hasthr"); c.HasThrough {
		c.ThroughMin = genLimit(t, "thrmin")
		c.CbFalseAt = rapid.SampledFrom([]int{-1, -1, 0, 1, 2, 5}).Draw(t, "cbfalse")
	}
	c.AllowKind, c.AllowEntries = genAllow(t)
	c.Passes = rapid.SampledFrom([]int{1, 1, 2}).Draw(t, "passes")
	// transient router failures (drawn last, so the draws above keep their meaning)
	switch rapid.IntRange(0, 9).Draw(t, "failmode") {
	case 0, 1: // 1-3 scattered failing calls among the first few
		n := rapid.IntRange(1, 3).Draw(t, "nfail")
		seen := map[int]bool{}
		for i := 0; i < n; i++ {
			if at := rapid.IntRange(0, 9).Draw(t, "failat"); !seen[at] {
				seen[at] = true
				c.FailAt = append(c.FailAt, at)
			}
		}
		sort.Ints(c.FailAt)
	case 2, 3: // a run of consecutive failing calls
		from := rapid.IntRange(0, 5).Draw(t, "failfrom")
		n := rapid.IntRange(2, 6).Draw(t, "failrun")
		for i := 0; i < n; i++ {
			c.FailAt = append(c.FailAt, from+i)
		}
	}
	return c
}

func run(c Case) kit.Result {
	rec := &recorder{failAt: map[int64]bool{}}
	for _, at := range c.FailAt {
		rec.failAt[int64(at)] = true
	}
	var rsys provider.Provide = manyRouter{rec}
	if c.Router == "single" {
		rsys = singleRouter{rec}
	}

	// model: which multihashes must be announced
	want := map[string]bool{}
	rejected := 0
	total := 0
	seenCid := map[string]bool{}
	dups := 0
	var streams [][]cid.Cid
	for _, s := range c.Streams {
		var cs []cid.Cid
		for _, k := range s {
			ci := k.Cid()
			cs = append(cs, ci)
			total++
			if seenCid[ci.KeyString()] {
				dups++
			}
			seenCid[ci.KeyString()] = true
			if allowed(k, c.AllowKind, c.AllowEntries) {
				want[string(ci.Hash())] = true
			} else {
				rejected++
			}
		}
		streams = append(streams, cs)
	}

	prod := &producers{}
	var kp provider.KeyChanFunc
	if len(streams) == 1 {
		kp = prod.stream(streams[0], false)
	} else {
		var fs []provider.KeyChanFunc
		for _, s := range streams {
			fs = append(fs, prod.stream(s, false))
		}
		kp = prod.relay(provider.NewPrioritizedProvider(fs...))
	}
	// delivered counts the keys actually received by Reprovide (the prioritized provider
	// reads one key ahead of its consumer, so producer-side counts would overstate it)
	delivered := &prod.sent
	if len(streams) > 1 {
		delivered = &prod.relayed
	}

	cbCalls := 0
	cbStopped := false
	opts := []provider.Option{provider.Online(rsys), provider.ReproviderInterval(0), provider.KeyProvider(kp)}
	if al := makeAllowlist(c.AllowKind, c.AllowEntries); al != nil {
		opts = append(opts, provider.Allowlist(al))
	}
	if c.HasMaxBatch {
		opts = append(opts, provider.MaxBatchSize(c.MaxBatch))
	}
	if c.HasThrough {
		opts = append(opts, provider.ThroughputReport(func(reprovide, complete bool, n uint, d time.Duration) bool {
			rec.mu.Lock()
			defer rec.mu.Unlock()
			ret := cbCalls != c.CbFalseAt
			cbCalls++
			rec.events = append(rec.events, event{cbRet: ret})
			return ret
		}, c.ThroughMin))
	}
	sys, err := provider.New(dssync.MutexWrap(datastore.NewMapDatastore()), opts...)
	if err != nil {
		return kit.Fail("provider.New: %v", err)
	}
	defer sys.Close()

	zeroCfg := (c.HasMaxBatch && c.MaxBatch == 0) || (c.HasThrough && c.ThroughMin == 0)
	stall := 20 * time.Second
	if zeroCfg {
		stall = 100 * time.Millisecond
	}
	progress := func() int64 { return prod.sent.Load() + prod.relayed.Load() + rec.calls.Load() }

	batches := 0
	failedCalls, failedMid, errReturns := 0, 0, 0
	for pass := 0; pass < c.Passes; pass++ {
		rec.mu.Lock()
		rec.keys, rec.events = nil, nil
		rec.mu.Unlock()
		sent0 := delivered.Load()

		res := watch(sys.Reprovide, "provider.(*reprovider).Reprovide", progress, stall)
		prod.wait() // producers stop when watch cancels the context on return

		if !res.finished {
			// termination failure, confirmed as a busy loop without progress
			consumed := delivered.Load() - sent0
			msg := fmt.Sprintf("Reprovide does not terminate (pass %d): busy loop, %d of %d keys read from the key channel, %d router calls, returned after cancel=%v err=%v",
				pass, consumed, total, len(rec.events), res.returned, res.err)
			if zeroCfg && consumed == 0 && rec.calls.Load() == 0 {
				return kit.Result{Err: errors.New(msg + " [MaxBatchSize(0)/ThroughputReport(f,0)]"), Known: knownF17}
			}
			return kit.Result{Err: errors.New(msg)}
		}
		rec.mu.Lock()
		keys, events := rec.keys, rec.events
		rec.mu.Unlock()
		// After a router call failed in this pass only the unconditional parts of the
		// statement are demanded: Reprovide terminates (above), nothing but allowed keys
		// reaches the router and every call respects the configured maximum. What happens
		// to the keys of a failed call (dropped, retried) and whether the failure is
		// reported in the return value is left to the implementation.
		failedHere, lastCall := 0, -1
		for i, e := range events {
			if e.batch > 0 {
				lastCall = i
			}
		}
		for i, e := range events {
			if e.failed {
				failedHere++
				if i < lastCall {
					failedMid++
				}
			}
		}
		failedCalls += failedHere
		if res.err != nil {
			if failedHere == 0 {
				return kit.Fail("Reprovide returned %v (pass %d)", res.err, pass)
			}
			errReturns++
		}
		if got := delivered.Load() - sent0; failedHere == 0 && len(streams) == 1 && got != int64(total) {
			return kit.Fail("Reprovide returned nil after reading %d of %d keys (pass %d)", got, total, pass)
		}
		got := map[string]bool{}
		for _, k := range keys {
			if !want[k] {
				h := mh.Multihash(k)
				return kit.Fail("announced %s which is not an allowed key of the stream (pass %d)", h.B58String(), pass)
			}
			got[k] = true
		}
		if len(got) != len(want) && failedHere == 0 {
			for k := range want {
				if !got[k] {
					return kit.Fail("allowed key %s was never announced (%d of %d announced, pass %d)", mh.Multihash(k).B58String(), len(got), len(want), pass)
				}
			}
		}
		// batch bounds
		for _, e := range events {
			if e.batch == 0 {
				if !e.cbRet {
					cbStopped = true
				}
				continue
			}
			batches++
			if c.Router != "many" {
				continue
			}
			if c.HasMaxBatch && c.MaxBatch > 0 && uint(e.batch) > c.MaxBatch {
				return kit.Fail("batch of %d keys exceeds MaxBatchSize(%d) (pass %d, %d router call(s) failed in the pass)", e.batch, c.MaxBatch, pass, failedHere)
			}
			if c.HasThrough && c.ThroughMin > 0 && !cbStopped && uint(e.batch) > c.ThroughMin {
				return kit.Fail("batch of %d keys exceeds the ThroughputReport minimum %d while the report is active (pass %d, %d router call(s) failed in the pass)", e.batch, c.ThroughMin, pass, failedHere)
			}
		}
	}

	cls := []string{"router:" + c.Router, "allow:" + c.AllowKind, fmt.Sprintf("streams:%d", len(c.Streams))}
	if zeroCfg {
		cls = append(cls, "zero-limit")
	}
	if c.HasThrough {
		cls = append(cls, "throughput")
	}
	if c.HasMaxBatch {
		cls = append(cls, "maxbatch")
	}
	if rejected > 0 {
		cls = append(cls, "has-rejected")
	}
	if dups > 0 {
		cls = append(cls, "has-dups")
	}
	if batches >= 2*c.Passes {
		cls = append(cls, "multi-batch")
	}
	if failedCalls > 0 {
		cls = append(cls, "router-failed")
	}
	if failedMid > 0 {
		cls = append(cls, "router-failed-before-last-call")
		if c.Router == "many" && ((c.HasMaxBatch && c.MaxBatch > 0) || (c.HasThrough && c.ThroughMin > 0)) {
			cls = append(cls, "many-bounded-failed-before-last-call")
		}
	}
	if errReturns > 0 {
		cls = append(cls, "err-return-after-router-failure")
	}
	return kit.Result{NonTrivial: dups > 0 && rejected > 0 && len(want) > 0 && batches >= 2*c.Passes, Classes: cls}
}

func sample(c Case) any {
	n := 0
	for _, s := range c.Streams {
		n += len(s)
	}
	if n <= 12 {
		return c
	}
	cc := c
	cc.Streams = nil
	return map[string]any{"config": cc, "keys_total": n, "first_keys": c.Streams[0][:min(6, len(c.Streams[0]))]}
}

var spec = kit.Spec[Case]{
	Prop: "C44", Name: "reprovide",
	Rule:  "key streams (<=200 synthetic CIDs: duplicates, CIDv0/v1 forms, rejected hash functions, digest lengths around 20/128, identity) fed to provider.New(...).Reprovide with ProvideMany or single-Provide router, MaxBatchSize 0..1000, ThroughputReport threshold 0..1000 (callback returning false at a drawn call), default/custom/overriding allowlist, 1-2 passes, optionally through NewPrioritizedProvider, in 40% of the cases a router whose calls fail at drawn call indices (scattered or a consecutive run; then only termination, no-rejected-key and the batch bound are judged for that pass); non-trivial = stream has duplicate CIDs, rejected keys, >=1 allowed key and >=2 router calls per pass",
	Quick: 1500, Thorough: 3500,
	Gen: gen, Run: run, Sample: sample,
}

func TestPropReprovide(t *testing.T) { kit.All(t, spec) }

// ---------------------------------------------------------------------------
// sub-check "prio": NewPrioritizedProvider

type PStream struct {
	Keys []Key `json:"keys"`
	Fail bool  `json:"fail"` // the stream's KeyChanFunc returns an error
}

type PCase struct {
	Streams []PStream `json:"streams"`
}

func genPrio(t *rapid.T) PCase {
	var c PCase
	ns := rapid.IntRange(1, 4).Draw(t, "nstreams")
	pool := rapid.SampledFrom([]int{2, 5, 12, 40}).Draw(t, "pool")
	for i := 0; i < ns; i++ {
		n := kit.Length(60).Draw(t, "nkeys")
		s := PStream{Fail: rapid.IntRange(0, 9).Draw(t, "fail") == 0}
		for j := 0; j < n; j++ {
			k := Key{Code: mh.SHA2_256, Len: 32, N: rapid.IntRange(0, pool).Draw(t, "n"), Form: rapid.IntRange(0, 2).Draw(t, "form")}
			s.Keys = append(s.Keys, k)
		}
		c.Streams = append(c.Streams, s)
	}
	return c
}

func runPrio(c PCase) kit.Result {
	prod := &producers{}
	var fs []provider.KeyChanFunc
	for _, s := range c.Streams {
		var cs []cid.Cid
		for _, k := range s.Keys {
			cs = append(cs, k.Cid())
		}
		fs = append(fs, prod.stream(cs, s.Fail))
	}
	kp := provider.NewPrioritizedProvider(fs...)

	var got []cid.Cid
	var recv atomic.Int64
	res := watch(func(ctx context.Context) error {
		ch, err := kp(ctx)
		if err != nil {
			return err
		}
		for k := range ch {
			got = append(got, k)
			recv.Add(1)
		}
		return nil
	}, "c44.runPrio.func", func() int64 { return recv.Load() + prod.sent.Load() }, 20*time.Second)
	prod.wait()
	if !res.finished {
		return kit.Fail("prioritized provider output never closed (busy loop confirmed), %d keys received", recv.Load())
	}
	if res.err != nil {
		return kit.Fail("prioritized provider returned %v", res.err)
	}

	// reference: keys in stream order; a key is owned by the first (non-failing) stream
	// that contains it and may be emitted at most as often as it occurs there.
	var wantOrder []string
	owner := map[string]int{}
	maxCount := map[string]int{}
	overlap, live := 0, 0
	for i, s := range c.Streams {
		if s.Fail {
			continue
		}
		live++
		for _, k := range s.Keys {
			id := k.Cid().KeyString()
			o, ok := owner[id]
			if !ok {
				owner[id] = i
				wantOrder = append(wantOrder, id)
				o = i
			}
			if o == i {
				maxCount[id]++
			} else {
				overlap++
			}
		}
	}
	var gotOrder []string
	gotCount := map[string]int{}
	for _, k := range got {
		id := k.KeyString()
		if gotCount[id] == 0 {
			gotOrder = append(gotOrder, id)
		}
		gotCount[id]++
	}
	show := func(id string) string { c, _ := cid.Cast([]byte(id)); return c.String() }
	for id := range gotCount {
		if _, ok := owner[id]; !ok {
			return kit.Fail("emitted %s which is in no stream", show(id))
		}
	}
	for _, id := range wantOrder {
		if gotCount[id] == 0 {
			return kit.Fail("key %s of stream %d was never emitted", show(id), owner[id])
		}
		if gotCount[id] > maxCount[id] {
			return kit.Fail("key %s emitted %d times; it occurs %d time(s) in its first stream %d, later occurrences must be suppressed", show(id), gotCount[id], maxCount[id], owner[id])
		}
	}
	for i := range wantOrder {
		if gotOrder[i] != wantOrder[i] {
			return kit.Fail("first emissions out of stream order at position %d: got %s want %s", i, show(gotOrder[i]), show(wantOrder[i]))
		}
	}
	cls := []string{fmt.Sprintf("streams:%d", len(c.Streams))}
	if overlap > 0 {
		cls = append(cls, "overlap")
	}
	if live < len(c.Streams) {
		cls = append(cls, "failing-stream")
	}
	return kit.Result{NonTrivial: live >= 2 && overlap > 0, Classes: cls}
}

var specPrio = kit.Spec[PCase]{
	Prop: "C44", Name: "prio",
	Rule:  "1-4 key streams (<=60 keys each from a small pool so that streams overlap, CIDv0/v1 forms, 10% streams whose KeyChanFunc fails) through NewPrioritizedProvider; output must contain every key, first emissions in stream order, and a key owned by an earlier stream is not emitted again; non-trivial = >=2 live streams with overlapping keys",
	Quick: 1500, Thorough: 6000,
	Gen: genPrio, Run: runPrio,
}

func TestPropPrio(t *testing.T) { kit.All(t, specPrio) }
