package c09

// C09: the UnixFS DagReader behaves as a seekable byte reader.
//
// A file DAG is built by the real importers (balanced / trickle, tiny chunks, small widths,
// raw or dag-pb leaves, several CID prefixes, optional identity inlining), optionally passed
// through the DagModifier (seek+write / truncate steps, which produce irregular leaf sizes,
// sparse zero blocks and raw->pb conversions). Then a generated sequence of Read,
// CtxReadFull, Seek (3 whence values, targets from below 0 to beyond the end) and WriteTo
// is run against uio.NewDagReader and against a plain (content, position) model that
// follows bytes.Reader, compared modulo the io.Reader contract.
//
// Half of the CtxReadFull calls get a context of their own that is cancelled as soon as the
// call has returned (the `ctx, cancel := ...; defer cancel()` shape of real callers such as a
// per-request context handed down through mfs). The reader of such a case fetches through
// strictGetter, a NodeGetter that refuses work under a cancelled context, so that state a
// call leaves behind (walker context, preloaded node promises) and that still refers to the
// dead context shows in the following Read/Seek/WriteTo.

import (
	"bytes"
	"context"
	"fmt"
	"io"
	"sort"
	"testing"
	"time"

	chunker "github.com/ipfs/boxo/chunker"
	uio "github.com/ipfs/boxo/ipld/unixfs/io"
	"github.com/ipfs/boxo/ipld/unixfs/mod"
	cid "github.com/ipfs/go-cid"
	ipld "github.com/ipfs/go-ipld-format"
	"pgregory.net/rapid"
	"verif/kit"
)

func TestMain(m *testing.M) { kit.Main(m) }

type Op struct {
	Kind   string `json:"k"` // read | readfull | seek | writeto
	N      int    `json:"n,omitempty"`
	Off    int64  `json:"off,omitempty"`
	Whence int    `json:"w,omitempty"`
	// Cancel (readfull only): the call gets its own context, cancelled after it returned.
	Cancel bool `json:"cc,omitempty"`
}

// ModOp is one preparation step through the DagModifier.
type ModOp struct {
	Kind string   `json:"k"` // write (Seek(off,SeekStart)+Write(data)) | truncate
	Off  int64    `json:"off,omitempty"`
	Data DataSpec `json:"data,omitempty"`
	Size int64    `json:"size,omitempty"`
}

type Case struct {
	File     FileSpec `json:"file"`
	Mod      []ModOp  `json:"mod,omitempty"`
	ModWidth int      `json:"mod_width,omitempty"`
	ModChunk int      `json:"mod_chunk,omitempty"`
	Ops      []Op     `json:"ops"`
}

func gen(t *rapid.T) Case {
	c := Case{}
	maxLen := kit.Scale(4096, 8192)
	big := false
	if kit.Tier() == "thorough" && rapid.IntRange(0, 199).Draw(t, "bigfile") == 0 {
		maxLen = 3 << 20
		big = true
	}
	c.File = genFile(t, maxLen, 700, big)
	size := int64(c.File.Data.Len)
	chunk := c.File.Chunk
	if chunk == 0 {
		chunk = 32
	}
	if !big && rapid.IntRange(0, 3).Draw(t, "viamod") == 0 {
		c.ModWidth = rapid.SampledFrom([]int{2, 3, 4, 8}).Draw(t, "mod_width")
		if c.File.Width > 0 {
			// trickle.Append reads the existing DAG with its own Maxlinks: the modifier
			// uses the width the file was built with (with a narrower one it takes
			// leaves for subtrees and hangs children below a data-carrying leaf)
			c.ModWidth = c.File.Width
		}
		c.ModChunk = rapid.IntRange(4, 64).Draw(t, "mod_chunk")
		n := rapid.IntRange(1, 4).Draw(t, "nmod")
		for i := 0; i < n; i++ {
			if rapid.IntRange(0, 2).Draw(t, "modkind") == 0 {
				s := rapid.Int64Range(0, size+64).Draw(t, "tsize")
				c.Mod = append(c.Mod, ModOp{Kind: "truncate", Size: s})
				size = s
			} else {
				off := rapid.Int64Range(0, size+64).Draw(t, "woff")
				d := genData(t, rapid.IntRange(1, 150).Draw(t, "wlen"))
				c.Mod = append(c.Mod, ModOp{Kind: "write", Off: off, Data: d})
				if off+int64(d.Len) > size {
					size = off + int64(d.Len)
				}
			}
		}
	}

	// targets: leaf boundaries of a size splitter are multiples of chunk
	target := func() int64 {
		switch rapid.IntRange(0, 9).Draw(t, "tclass") {
		case 0:
			return rapid.Int64Range(-2, 1).Draw(t, "tlow")
		case 1:
			return size + rapid.Int64Range(-2, 2).Draw(t, "thigh")
		case 2, 3, 4, 5:
			nb := size / int64(chunk)
			return rapid.Int64Range(0, nb+1).Draw(t, "tb")*int64(chunk) + rapid.Int64Range(-1, 1).Draw(t, "td")
		default:
			return rapid.Int64Range(-2, size+2).Draw(t, "tany")
		}
	}
	pos := int64(0)
	nops := rapid.IntRange(1, 30).Draw(t, "nops")
	for i := 0; i < nops; i++ {
		var op Op
		switch rapid.IntRange(0, 12).Draw(t, "opkind") {
		case 0, 1, 2, 3:
			op.Kind = "read"
		case 4, 5:
			op.Kind = "readfull"
		case 6:
			op.Kind = "writeto"
		case 7:
			op = Op{Kind: "seek", Off: 0, Whence: io.SeekCurrent}
		default:
			op.Kind = "seek"
		}
		partial := i == 0 && !big && chunk > 1 && rapid.Bool().Draw(t, "startpartial")
		if partial {
			op = Op{Kind: "read"} // begin with a read that ends inside the first leaf
		}
		if i > 0 && c.Ops[i-1].Cancel && rapid.Bool().Draw(t, "aftercancel") {
			// the op that inherits whatever the cancelled call left in the reader: mostly
			// the one that does not bring a context of its own
			op = Op{Kind: rapid.SampledFrom([]string{"writeto", "writeto", "read"}).Draw(t, "afterkind")}
		}
		if op.Kind == "readfull" {
			op.Cancel = rapid.Bool().Draw(t, "cancelctx")
		}
		switch op.Kind {
		case "read", "readfull":
			if partial {
				op.N = rapid.IntRange(1, chunk-1).Draw(t, "npartial")
			} else if big {
				op.N = rapid.SampledFrom([]int{0, 1, chunk - 1, chunk, chunk + 1, 2 * chunk, 1000, 70000}).Draw(t, "n")
			} else {
				switch rapid.IntRange(0, 7).Draw(t, "nclass") {
				case 0:
					op.N = 0
				case 1:
					op.N = 1
				case 2, 3:
					op.N = max(0, chunk+rapid.IntRange(-1, 1).Draw(t, "nd"))
				case 4:
					op.N = 2 * chunk
				case 5:
					op.N = int(size) + rapid.IntRange(0, 2).Draw(t, "nbig")
				default:
					op.N = rapid.IntRange(0, 2*chunk).Draw(t, "n")
				}
			}
			if rem := size - pos; rem > 0 {
				pos += min(int64(op.N), rem)
			}
		case "seek":
			if op.Whence == io.SeekCurrent && op.Off == 0 && i > 0 && rapid.IntRange(0, 1).Draw(t, "tell") == 0 {
				break // position probe
			}
			op.Whence = rapid.SampledFrom([]int{0, 0, 1, 1, 2, 2, 0, 1, 2, 0, 1, 2, 0, 1, 2, 3, -1}).Draw(t, "whence")
			var tg int64
			if rapid.IntRange(0, 4).Draw(t, "rawoff") == 0 {
				// raw offset anywhere in [-size-2, size+2]
				op.Off = rapid.Int64Range(-size-2, size+2).Draw(t, "off")
				switch op.Whence {
				case io.SeekStart:
					tg = op.Off
				case io.SeekCurrent:
					tg = pos + op.Off
				case io.SeekEnd:
					tg = size + op.Off
				}
			} else {
				tg = target()
				switch op.Whence {
				case io.SeekCurrent:
					op.Off = tg - pos
				case io.SeekEnd:
					op.Off = tg - size
				default:
					op.Off = tg
				}
			}
			if op.Whence >= 0 && op.Whence <= 2 && tg >= 0 {
				pos = tg
			}
		case "writeto":
			if pos < size {
				pos = size
			}
		}
		c.Ops = append(c.Ops, op)
	}
	return c
}

// strictGetter is a NodeGetter that honours its context the way a network-backed DAG
// service does: a request under a cancelled context fails with the context's error; under
// a live context every node is delivered. Delivery happens inside the call (nothing here
// depends on timing); nodes are read from the in-memory service with the case's context.
type strictGetter struct {
	inner ipld.NodeGetter
	base  context.Context
}

func (g *strictGetter) Get(ctx context.Context, c cid.Cid) (ipld.Node, error) {
	if err := ctx.Err(); err != nil {
		return nil, err
	}
	return g.inner.Get(g.base, c)
}

func (g *strictGetter) GetMany(ctx context.Context, keys []cid.Cid) <-chan *ipld.NodeOption {
	out := make(chan *ipld.NodeOption, len(keys)+1)
	defer close(out)
	if err := ctx.Err(); err != nil {
		out <- &ipld.NodeOption{Err: err}
		return out
	}
	for _, k := range keys {
		nd, err := g.inner.Get(g.base, k)
		if err != nil {
			out <- &ipld.NodeOption{Err: err}
			return out
		}
		out <- &ipld.NodeOption{Node: nd}
	}
	return out
}

func sizeSplitterGen(n int) chunker.SplitterGen {
	return func(r io.Reader) chunker.Splitter { return chunker.NewSizeSplitter(r, int64(n)) }
}

// run executes the case. A failure on a DAG in which a node with links also carries inline
// UnixFS Data is attributed to the known finding "internal-node-data": such a DAG comes
// from the DagModifier appending to a single dag-pb leaf (defect recorded under C10,
// key "append-to-pb-leaf"); the reader skips that data by design.
func run(c Case) kit.Result {
	known := ""
	res := runCase(c, &known)
	if res.Err != nil {
		res.Known = known
	}
	return res
}

func runCase(c Case, known *string) kit.Result {
	ctx, cancel := context.WithCancel(context.Background())
	defer cancel()
	ds := newMemDAG()
	root, err := buildFile(ctx, ds, c.File)
	if err != nil {
		return kit.Fail("harness: building the file failed: %v", err)
	}
	classes := []string{"layout:" + c.File.Layout}
	viaMod := len(c.Mod) > 0
	if viaMod {
		// the preparation through the modifier; its errors and panics are C10's subject
		err = func() (err error) {
			defer func() {
				if r := recover(); r != nil {
					err = fmt.Errorf("modifier panic: %v", r)
				}
			}()
			dm, err := mod.NewDagModifier(ctx, root, ds, sizeSplitterGen(c.ModChunk))
			if err != nil {
				return err
			}
			dm.MaxLinks = c.ModWidth
			for _, m := range c.Mod {
				switch m.Kind {
				case "write":
					if _, err = dm.Seek(m.Off, io.SeekStart); err == nil {
						_, err = dm.Write(m.Data.Bytes())
					}
				case "truncate":
					err = dm.Truncate(m.Size)
				}
				if err != nil {
					return err
				}
			}
			root, err = dm.GetNode()
			return err
		}()
		if err != nil {
			// the modifier's own failures belong to C10, not to the reader
			return kit.Result{Classes: append(classes, "mod-error")}
		}
		classes = append(classes, "via-modifier")
	}
	// The content: for importer files the imported bytes; for modifier output the
	// concatenation of the leaves found by an independent walk.
	di, err := walkFile(ctx, ds, root)
	if err != nil && viaMod {
		// The modifier produced a DAG whose blocks cannot all be fetched (seen: a link
		// carrying an identity CID above the 128-byte digest limit). No content is
		// defined for such a DAG; the defect is the modifier's and is reported by C10.
		return kit.Result{Classes: append(classes, "mod-unwalkable")}
	}
	if err != nil {
		return kit.Fail("harness: independent walk failed: %v", err)
	}
	if di.InternalData > 0 {
		*known = "internal-node-data"
		classes = append(classes, "internal-node-data")
	}
	content := di.Content
	if !viaMod {
		content = c.File.Data.Bytes()
	}
	size := int64(len(content))
	classes = append(classes, fmt.Sprintf("depth:%d", min(di.Depth, 4)))
	if size > 65536 {
		classes = append(classes, "big")
	}
	insideLeaf := func(p int64) bool {
		if p <= 0 || p >= size {
			return false
		}
		i := sort.Search(len(di.Bounds), func(i int) bool { return di.Bounds[i] >= p })
		return !(i < len(di.Bounds) && di.Bounds[i] == p)
	}

	var getter ipld.NodeGetter = ds
	for _, op := range c.Ops {
		if op.Cancel {
			getter = &strictGetter{inner: ds, base: ctx}
			classes = append(classes, "strict-getter")
			break
		}
	}
	r, err := uio.NewDagReader(ctx, root, getter)
	if err != nil {
		return kit.Fail("NewDagReader: %v", err)
	}
	defer r.Close()
	if r.Size() != uint64(size) {
		return kit.Fail("reader Size()=%d, content has %d bytes", r.Size(), size)
	}

	pos := int64(0)
	partialRead := false // some read ended strictly inside a leaf
	// deadCtx: the last call that handed the reader a context was a CtxReadFull whose
	// context is cancelled by now, and the reader has not moved since
	deadCtx := false
	// leafAhead: continuing from p needs at least one leaf that no call has fetched yet
	leafAhead := func(p int64) bool {
		i := sort.Search(len(di.Bounds), func(i int) bool { return di.Bounds[i] >= p })
		return i < len(di.Bounds) && di.Bounds[i] < size
	}
	nt := false
	seen := map[string]bool{}
	for i, op := range c.Ops {
		switch op.Kind {
		case "read", "readfull":
			buf := make([]byte, op.N)
			var n int
			var err error
			if deadCtx && op.N > 0 && leafAhead(pos) {
				seen["fetch-after-cancelled-ctx"] = true
			}
			switch {
			case op.Kind == "read":
				n, err = r.Read(buf)
				deadCtx = false
			case op.Cancel:
				// a context per call, gone once the call is over
				cctx, ccancel := context.WithCancel(ctx)
				n, err = r.CtxReadFull(cctx, buf)
				ccancel()
				deadCtx = true
			default:
				n, err = r.CtxReadFull(ctx, buf)
				deadCtx = false
			}
			rem := size - pos
			if rem < 0 {
				rem = 0
			}
			want := int(min(int64(op.N), rem))
			if n != want {
				return kit.Fail("op %d %s(len %d) at %d of %d: n=%d err=%v, byte reader gives n=%d", i, op.Kind, op.N, pos, size, n, err, want)
			}
			if n > 0 && !bytes.Equal(buf[:n], content[pos:pos+int64(n)]) {
				return kit.Fail("op %d %s(len %d) at %d of %d: wrong bytes", i, op.Kind, op.N, pos, size)
			}
			switch {
			case err == nil:
				if op.N > 0 && rem == 0 {
					return kit.Fail("op %d %s(len %d) at %d of %d: (0,nil) where (0,EOF) is required", i, op.Kind, op.N, pos, size)
				}
			case err == io.EOF:
				// EOF is right only if this call reached the end
				if int64(n) < rem {
					return kit.Fail("op %d %s(len %d) at %d of %d: EOF after %d bytes with %d remaining", i, op.Kind, op.N, pos, size, n, rem)
				}
			default:
				return kit.Fail("op %d %s(len %d) at %d of %d: error %v", i, op.Kind, op.N, pos, size, err)
			}
			pos += int64(n)
			if insideLeaf(pos) {
				partialRead = true
			}
			if rem == 0 && op.N > 0 {
				seen["read-at-eof"] = true
			}
		case "seek":
			var tg int64
			valid := true
			switch op.Whence {
			case io.SeekStart:
				tg = op.Off
			case io.SeekCurrent:
				tg = pos + op.Off
			case io.SeekEnd:
				tg = size + op.Off
			default:
				valid = false
			}
			got, err := r.Seek(op.Off, op.Whence)
			if !valid || tg < 0 {
				if err == nil {
					return kit.Fail("op %d Seek(%d,%d) at %d of %d: accepted (returned %d), byte reader rejects it", i, op.Off, op.Whence, pos, size, got)
				}
				seen["seek-rejected"] = true
				break // position must be unchanged: checked by the following ops
			}
			if err != nil {
				return kit.Fail("op %d Seek(%d,%d) at %d of %d: error %v", i, op.Off, op.Whence, pos, size, err)
			}
			if got != tg {
				return kit.Fail("op %d Seek(%d,%d) at %d of %d: returned %d, want %d", i, op.Off, op.Whence, pos, size, got, tg)
			}
			if insideLeaf(tg) && partialRead && tg != pos {
				nt = true
			}
			if tg > size {
				seen["seek-past-end"] = true
			}
			if tg < pos {
				seen["seek-back"] = true
			}
			if tg != pos {
				deadCtx = false // the reader repositions with its own context
			}
			pos = tg
		case "writeto":
			var w bytes.Buffer
			if deadCtx && leafAhead(pos) {
				// WriteTo brings no context: it has to fetch the rest of the file although
				// the context of the previous call is dead
				seen["writeto-after-cancelled-ctx"] = true
				nt = true
			}
			deadCtx = false
			n, err := r.WriteTo(&w)
			if err != nil {
				return kit.Fail("op %d WriteTo at %d of %d: error %v", i, pos, size, err)
			}
			var want []byte
			if pos < size {
				want = content[pos:]
			}
			if n != int64(len(want)) || n != int64(w.Len()) {
				return kit.Fail("op %d WriteTo at %d of %d: returned %d, wrote %d, remainder is %d", i, pos, size, n, w.Len(), len(want))
			}
			if !bytes.Equal(w.Bytes(), want) {
				return kit.Fail("op %d WriteTo at %d of %d: wrong bytes", i, pos, size)
			}
			if insideLeaf(pos) && i > 0 && (c.Ops[i-1].Kind == "read" || c.Ops[i-1].Kind == "readfull") {
				nt = true
			}
			if pos < size {
				pos = size
			}
			seen["writeto"] = true
		default:
			return kit.Fail("harness: unknown op %q", op.Kind)
		}
	}
	for k := range seen {
		classes = append(classes, k)
	}
	sort.Strings(classes)
	if nt {
		classes = append(classes, "nontrivial")
	}
	return kit.Result{NonTrivial: nt, Classes: classes}
}

var spec = kit.Spec[Case]{
	Prop: "C09", Name: "main",
	Rule:  "file built by balanced/trickle importers (chunk 1..64, width 2..8 or 174, raw/pb leaves, v0/v1/inline-identity CIDs; single-node files; 1/4 passed through a DagModifier of the same width: seek+write/truncate steps), then <=30 ops Read/CtxReadFull/Seek(3 whences + bad whence, targets in [-2,size+2] weighted to leaf boundaries +-1, raw offsets in [-size-2,size+2])/WriteTo vs a bytes.Reader model; half of the CtxReadFull calls with a context of their own that is cancelled after the call returned (reader then fetches through a NodeGetter that refuses cancelled contexts), half of them directly followed by WriteTo/Read; non-trivial = a Seek lands strictly inside a leaf after a partial read of a leaf, or WriteTo directly follows a read that ended inside a leaf, or WriteTo has to fetch further leaves right after a CtxReadFull whose context is cancelled",
	Quick: 6000, Thorough: 20000,
	Gen: gen, Run: run, HangTimeout: 120 * time.Second,
	Sample: func(c Case) any {
		if len(c.Ops) > 12 {
			c.Ops = c.Ops[:12]
		}
		return c
	},
}

func TestProp(t *testing.T) { kit.All(t, spec) }
