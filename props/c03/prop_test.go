// Package c03 checks property C03: verified reads never return bytes that do not hash to
// the requested CID.
//
// Sub-checks
//
//	vbs-enum  exhaustive fault grid on the validating blockstore (small blocks: every byte
//	          position x flip mask, every truncation, extensions, swaps, foreign bytes), over
//	          the stock datastore-backed blockstore and over a test-double Blockstore
//	vbs       generated blocks (all kit hash functions, up to KiB sizes) with generated faults;
//	          backing store = stock blockstore or a test-double Blockstore that labels the
//	          block it returns in one of four ways
//	fs-enum   exhaustive fault grid on a small filestore-referenced file (std + mmap reader)
//	fs        generated files / regions / mutation sequences on the filestore
//	url       filestore URL references served by an in-process HTTP server on 127.0.0.1
package c03

import (
	"bytes"
	"context"
	"errors"
	"fmt"
	"net/http"
	"net/http/httptest"
	"net/url"
	"os"
	"path/filepath"
	"sort"
	"strconv"
	"strings"
	"sync"
	"testing"
	"time"

	blockstore "github.com/ipfs/boxo/blockstore"
	"github.com/ipfs/boxo/filestore"
	posinfo "github.com/ipfs/boxo/filestore/posinfo"
	dag "github.com/ipfs/boxo/ipld/merkledag"
	blocks "github.com/ipfs/go-block-format"
	cid "github.com/ipfs/go-cid"
	ds "github.com/ipfs/go-datastore"
	dssync "github.com/ipfs/go-datastore/sync"
	ipld "github.com/ipfs/go-ipld-format"
	mh "github.com/multiformats/go-multihash"
	"pgregory.net/rapid"
	"verif/kit"
)

func TestMain(m *testing.M) { kit.Main(m) }

// tmpParent prefers a memory-backed directory for the per-case sandboxes (many small file
// operations per case); "" means the default temp directory.
var tmpParent = sync.OnceValue(func() string {
	if st, err := os.Stat("/dev/shm"); err == nil && st.IsDir() {
		if f, err := os.CreateTemp("/dev/shm", "verifprobe"); err == nil {
			f.Close()
			os.Remove(f.Name())
			return "/dev/shm"
		}
	}
	return ""
})

// hashesTo re-hashes data with go-multihash directly (not through the code under test) and
// compares with the multihash of c.
func hashesTo(c cid.Cid, data []byte) bool {
	dm, err := mh.Decode(c.Hash())
	if err != nil {
		return false
	}
	l := dm.Length
	if dm.Code == mh.IDENTITY {
		l = -1
	}
	h, err := mh.Sum(data, dm.Code, l)
	return err == nil && bytes.Equal(h, c.Hash())
}

func addClass(set map[string]struct{}, s string) { set[s] = struct{}{} }

func classList(set map[string]struct{}) []string {
	out := make([]string, 0, len(set))
	for k := range set {
		out = append(out, k)
	}
	sort.Strings(out)
	return out
}

// ===========================================================================
// validating blockstore

// Fault describes how the backing datastore value of one block is replaced after the block
// was stored honestly.
type Fault struct {
	Kind  string `json:"kind"`            // intact | flip | trunc | extend | prepend | swap | other | delete
	Pos   int    `json:"pos,omitempty"`   // flip, swap: byte position
	Xor   byte   `json:"xor,omitempty"`   // flip: non-zero mask
	Len   int    `json:"len,omitempty"`   // trunc: new length (< original)
	Ext   []byte `json:"ext,omitempty"`   // extend / prepend: bytes added (>= 1)
	J     int    `json:"j,omitempty"`     // swap: second position
	Other int    `json:"other,omitempty"` // other: index of the block whose original bytes are stored instead
}

type BlockSpec struct {
	Data   []byte         `json:"data"`
	Prefix kit.PrefixSpec `json:"prefix"`
	Fault  Fault          `json:"fault"`
	// Alias > 0: request the block through the (Alias-1)-th alias CID of the same multihash
	// (CIDv0 <-> CIDv1 raw / dag-pb), if that many exist.
	Alias int `json:"alias,omitempty"`
}

type VCase struct {
	Blocks   []BlockSpec `json:"blocks"`
	NoPrefix bool        `json:"no_prefix,omitempty"`
	// Inner selects the Blockstore wrapped by the ValidatingBlockstore: "" = the stock
	// blockstore.NewBlockstore over a map datastore (faults replace the datastore value);
	// otherwise a test double (fakeStore) whose held bytes are replaced directly and which
	// labels the block it returns according to the mode (see the label* constants).
	Inner string `json:"inner,omitempty"`
}

// The ValidatingBlockstore wraps the Blockstore *interface*; what CID the wrapped store puts
// on the block it returns is not prescribed by that interface. The modes below are the
// labelling choices an implementation can make.
const (
	labelReq    = "label-req"    // blocks.NewBlockWithCid(held, requested CID)   (what NewBlockstore does)
	labelSum    = "label-sum"    // CID = requested.Prefix().Sum(held)             (blocks.NewBlockWithPrefix-like: derived from the bytes)
	labelSha256 = "label-sha256" // blocks.NewBlock(held): CIDv0 sha2-256 of the bytes
	labelOwn    = "label-own"    // the CID under which the block was first Put, kept next to the bytes
)

var innerModes = []string{labelReq, labelSum, labelSha256, labelOwn}

type heldBlock struct {
	data []byte
	own  cid.Cid
}

// fakeStore is a minimal in-memory Blockstore keyed by multihash. It never checks anything:
// Get returns whatever bytes it holds for the requested key, labelled according to label.
type fakeStore struct {
	label string
	held  map[string]*heldBlock
}

var _ blockstore.Blockstore = (*fakeStore)(nil)

func newFakeStore(label string) *fakeStore {
	return &fakeStore{label: label, held: map[string]*heldBlock{}}
}

func (f *fakeStore) Get(_ context.Context, c cid.Cid) (blocks.Block, error) {
	h, ok := f.held[string(c.Hash())]
	if !ok {
		return nil, ipld.ErrNotFound{Cid: c}
	}
	data := append([]byte(nil), h.data...)
	switch f.label {
	case labelSum:
		if sc, err := c.Prefix().Sum(data); err == nil {
			return blocks.NewBlockWithCid(data, sc)
		}
	case labelSha256:
		return blocks.NewBlock(data), nil
	case labelOwn:
		return blocks.NewBlockWithCid(data, h.own)
	}
	return blocks.NewBlockWithCid(data, c)
}

func (f *fakeStore) Has(_ context.Context, c cid.Cid) (bool, error) {
	_, ok := f.held[string(c.Hash())]
	return ok, nil
}

func (f *fakeStore) GetSize(_ context.Context, c cid.Cid) (int, error) {
	h, ok := f.held[string(c.Hash())]
	if !ok {
		return -1, ipld.ErrNotFound{Cid: c}
	}
	return len(h.data), nil
}

func (f *fakeStore) Put(_ context.Context, b blocks.Block) error {
	k := string(b.Cid().Hash())
	if _, ok := f.held[k]; !ok {
		f.held[k] = &heldBlock{data: append([]byte(nil), b.RawData()...), own: b.Cid()}
	}
	return nil
}

func (f *fakeStore) PutMany(ctx context.Context, bs []blocks.Block) error {
	for _, b := range bs {
		f.Put(ctx, b)
	}
	return nil
}

func (f *fakeStore) DeleteBlock(_ context.Context, c cid.Cid) error {
	delete(f.held, string(c.Hash()))
	return nil
}

func (f *fakeStore) AllKeysChan(context.Context) (<-chan cid.Cid, error) {
	keys := make([]string, 0, len(f.held))
	for k := range f.held {
		keys = append(keys, k)
	}
	sort.Strings(keys)
	ch := make(chan cid.Cid, len(keys))
	for _, k := range keys {
		ch <- cid.NewCidV1(cid.Raw, mh.Multihash(k))
	}
	close(ch)
	return ch, nil
}

// keyRecorder remembers the datastore key of the most recent Put so that the harness can
// overwrite exactly the value the blockstore wrote, without assuming a key layout.
type keyRecorder struct {
	ds.Batching
	last *ds.Key
}

func (k *keyRecorder) Put(ctx context.Context, key ds.Key, v []byte) error {
	kk := key
	k.last = &kk
	return k.Batching.Put(ctx, key, v)
}

// applyFault returns the value to store (nil,false = delete the key; nil,true with
// keep=true = leave untouched).
func applyFault(f Fault, orig []byte, all []BlockSpec) (val []byte, del bool, keep bool) {
	d := append([]byte(nil), orig...)
	switch f.Kind {
	case "flip":
		if f.Pos < 0 || f.Pos >= len(d) || f.Xor == 0 {
			return nil, false, true
		}
		d[f.Pos] ^= f.Xor
		return d, false, false
	case "trunc":
		if f.Len < 0 || f.Len >= len(d) {
			return nil, false, true
		}
		return d[:f.Len], false, false
	case "extend":
		if len(f.Ext) == 0 {
			return nil, false, true
		}
		return append(d, f.Ext...), false, false
	case "prepend":
		if len(f.Ext) == 0 {
			return nil, false, true
		}
		return append(append([]byte(nil), f.Ext...), d...), false, false
	case "swap":
		if f.Pos < 0 || f.J < 0 || f.Pos >= len(d) || f.J >= len(d) {
			return nil, false, true
		}
		d[f.Pos], d[f.J] = d[f.J], d[f.Pos]
		return d, false, false
	case "other":
		if f.Other < 0 || f.Other >= len(all) {
			return nil, false, true
		}
		return append([]byte(nil), all[f.Other].Data...), false, false
	case "delete":
		return nil, true, false
	default: // intact
		return nil, false, true
	}
}

func runV(c VCase) kit.Result {
	ctx := context.Background()
	rec := &keyRecorder{Batching: dssync.MutexWrap(ds.NewMapDatastore())}
	var opts []blockstore.Option
	if c.NoPrefix {
		opts = append(opts, blockstore.NoPrefix())
	}
	var fake *fakeStore
	var inner blockstore.Blockstore
	switch c.Inner {
	case "":
		inner = blockstore.NewBlockstore(rec, opts...)
	case labelReq, labelSum, labelSha256, labelOwn:
		fake = newFakeStore(c.Inner)
		inner = fake
	default:
		return kit.Result{Classes: []string{"harness:unknown-inner"}}
	}
	vbs := &blockstore.ValidatingBlockstore{Blockstore: inner}

	blks := make([]blocks.Block, len(c.Blocks))
	keyOf := map[string]ds.Key{}  // multihash -> datastore key observed at Put
	stored := map[string][]byte{} // model of the backing value
	present := map[string]bool{}  // model: key exists
	for i, b := range c.Blocks {
		blks[i] = kit.Block(b.Data, b.Prefix)
		hk := string(blks[i].Cid().Hash())
		rec.last = nil
		if err := vbs.Put(ctx, blks[i]); err != nil {
			return kit.Fail("Put of honest block %d: %v", i, err)
		}
		if fake != nil {
			if h, held := fake.held[hk]; held && bytes.Equal(h.data, b.Data) {
				if _, seen := keyOf[hk]; !seen {
					keyOf[hk] = ds.Key{}
					stored[hk] = append([]byte(nil), b.Data...)
					present[hk] = true
				}
			}
		} else if rec.last != nil {
			if _, seen := keyOf[hk]; !seen {
				keyOf[hk] = *rec.last
				stored[hk] = append([]byte(nil), b.Data...)
				present[hk] = true
			}
		}
		if _, ok := keyOf[hk]; !ok {
			return kit.Result{Classes: []string{"harness:no-put-observed"}}
		}
	}
	// corrupt the backing values
	for i, b := range c.Blocks {
		hk := string(blks[i].Cid().Hash())
		val, del, keep := applyFault(b.Fault, b.Data, c.Blocks)
		switch {
		case keep:
		case del:
			if fake != nil {
				delete(fake.held, hk)
			} else if err := rec.Batching.Delete(ctx, keyOf[hk]); err != nil {
				panic(err)
			}
			present[hk] = false
		default:
			if fake != nil {
				own := blks[i].Cid()
				if h, held := fake.held[hk]; held {
					own = h.own
				}
				fake.held[hk] = &heldBlock{data: append([]byte(nil), val...), own: own}
			} else if err := rec.Batching.Put(ctx, keyOf[hk], val); err != nil {
				panic(err)
			}
			stored[hk] = val
			present[hk] = true
		}
	}

	cls := map[string]struct{}{}
	nonTrivial := false
	for i, b := range c.Blocks {
		own := blks[i].Cid()
		req := own
		if b.Alias > 0 {
			if al := kit.AliasCids(own); b.Alias-1 < len(al) {
				req = al[b.Alias-1]
				addClass(cls, "via-alias")
			}
		}
		hk := string(own.Hash())
		wantServed := present[hk] && bytes.Equal(stored[hk], b.Data)
		if !wantServed {
			nonTrivial = true
		}
		// With the test double the label of the inner block is the double's choice. Where it
		// differs from the requested CID although the bytes are intact (alias request under
		// label-own / label-sum, foreign prefix under label-sha256) the property only says what
		// may NOT be returned; whether such a block is served, and under which label, gets no
		// verdict.
		labelIsReq := true
		if fake != nil && present[hk] {
			if ib, ierr := fake.Get(ctx, req); ierr != nil || !ib.Cid().Equals(req) {
				labelIsReq = false
			}
		}
		innerName := "stock"
		if fake != nil {
			innerName = c.Inner
			addClass(cls, "inner:"+c.Inner)
			if present[hk] && !bytes.Equal(stored[hk], b.Data) {
				if labelIsReq {
					addClass(cls, "corrupt-labelled-as-requested")
				} else {
					addClass(cls, "corrupt-labelled-otherwise")
				}
			}
		}
		got, err := vbs.Get(ctx, req)
		if err == nil {
			if got == nil {
				return kit.Fail("block %d: Get returned (nil, nil)", i)
			}
			if !hashesTo(req, got.RawData()) {
				return kit.Fail("block %d (%s, fault %s, inner %s): Get(%s) returned %d bytes (block labelled %s) that do not hash to the requested CID (stored %d bytes, original %d)",
					i, pfx(b.Prefix), b.Fault.Kind, innerName, req, len(got.RawData()), got.Cid(), len(stored[hk]), len(b.Data))
			}
			if !bytes.Equal(got.RawData(), b.Data) {
				return kit.Fail("block %d: Get returned bytes different from the original block", i)
			}
			if labelIsReq && !got.Cid().Equals(req) {
				return kit.Fail("block %d: Get(%s) returned a block with CID %s", i, req, got.Cid())
			}
			if !wantServed {
				return kit.Fail("block %d (fault %s): corrupted backing value was served", i, b.Fault.Kind)
			}
			addClass(cls, "served:"+b.Fault.Kind)
		} else {
			if wantServed && !labelIsReq {
				addClass(cls, "intact-mislabelled:rejected")
				continue
			}
			if wantServed {
				return kit.Fail("block %d (%s, fault %s, inner %s): backing value is intact but Get(%s) failed: %v", i, pfx(b.Prefix), b.Fault.Kind, innerName, req, err)
			}
			switch {
			case errors.Is(err, blockstore.ErrHashMismatch):
				addClass(cls, "rejected:"+b.Fault.Kind+":ErrHashMismatch")
			case ipld.IsNotFound(err):
				addClass(cls, "rejected:"+b.Fault.Kind+":NotFound")
			default:
				addClass(cls, "rejected:"+b.Fault.Kind+":other-error")
			}
		}
		addClass(cls, "hash:"+hashName(b.Prefix.MhType))
	}
	return kit.Result{NonTrivial: nonTrivial, Classes: classList(cls)}
}

func pfx(p kit.PrefixSpec) string {
	return fmt.Sprintf("v%d/codec=0x%x/%s", p.Version, p.Codec, hashName(p.MhType))
}

func hashName(code uint64) string {
	if n, ok := mh.Codes[code]; ok {
		return n
	}
	return strconv.FormatUint(code, 16)
}

// ---- generated search

func genFault(t *rapid.T, n, nblocks int) Fault {
	kinds := []string{"intact", "flip", "flip", "flip", "trunc", "trunc", "extend", "prepend", "swap", "other", "delete"}
	k := rapid.SampledFrom(kinds).Draw(t, "fault")
	switch k {
	case "flip":
		if n == 0 {
			return Fault{Kind: "extend", Ext: []byte{0}}
		}
		pos := rapid.OneOf(rapid.IntRange(0, n-1), rapid.SampledFrom([]int{0, n - 1, n / 2})).Draw(t, "pos")
		x := rapid.OneOf(rapid.SampledFrom([]byte{1, 2, 4, 8, 16, 32, 64, 128, 255}), rapid.ByteRange(1, 255)).Draw(t, "xor")
		return Fault{Kind: k, Pos: pos, Xor: x}
	case "trunc":
		if n == 0 {
			return Fault{Kind: "extend", Ext: []byte{0}}
		}
		l := rapid.OneOf(rapid.IntRange(0, n-1), rapid.SampledFrom([]int{0, n - 1, n / 2})).Draw(t, "newlen")
		return Fault{Kind: k, Len: l}
	case "extend", "prepend":
		e := rapid.SliceOfN(rapid.Byte(), 1, 8).Draw(t, "ext")
		return Fault{Kind: k, Ext: e}
	case "swap":
		if n < 2 {
			return Fault{Kind: "extend", Ext: []byte{0xff}}
		}
		i := rapid.IntRange(0, n-1).Draw(t, "i")
		j := rapid.OneOf(rapid.IntRange(0, n-1), rapid.Just((i+1)%n)).Draw(t, "j")
		return Fault{Kind: k, Pos: i, J: j}
	case "other":
		if nblocks < 2 {
			return Fault{Kind: "delete"}
		}
		o := rapid.IntRange(0, nblocks-1).Draw(t, "donor")
		return Fault{Kind: k, Other: o}
	}
	return Fault{Kind: k}
}

func genV(t *rapid.T) VCase {
	c := VCase{NoPrefix: rapid.IntRange(0, 4).Draw(t, "noprefix") == 0}
	// half of the cases wrap the stock blockstore, the other half a test double (the statement
	// quantifies over "whatever the backing store holds" and the wrapper takes the interface)
	c.Inner = rapid.SampledFrom([]string{"", "", "", "", labelReq, labelSum, labelSum, labelSha256}).Draw(t, "inner")
	if c.Inner == labelSha256 && rapid.Bool().Draw(t, "own") {
		c.Inner = labelOwn
	}
	if c.Inner != "" {
		c.NoPrefix = false
	}
	nb := rapid.IntRange(1, 4).Draw(t, "nblocks")
	max := kit.Scale(4096, 100000)
	for i := 0; i < nb; i++ {
		c.Blocks = append(c.Blocks, BlockSpec{
			Data:   kit.Bytes(max).Draw(t, "data"),
			Prefix: kit.Prefixes(true).Draw(t, "prefix"),
		})
	}
	for i := range c.Blocks {
		// identity "hashes" embed the data in the CID: keep those blocks inline-sized
		if c.Blocks[i].Prefix.MhType == mh.IDENTITY && len(c.Blocks[i].Data) > 64 {
			c.Blocks[i].Data = c.Blocks[i].Data[:64]
		}
		c.Blocks[i].Fault = genFault(t, len(c.Blocks[i].Data), nb)
		if rapid.IntRange(0, 3).Draw(t, "alias") == 0 {
			c.Blocks[i].Alias = rapid.IntRange(1, 3).Draw(t, "aliasidx")
		}
	}
	return c
}

func sampleV(c VCase) any {
	type sb struct {
		Len    int            `json:"len"`
		Prefix kit.PrefixSpec `json:"prefix"`
		Fault  Fault          `json:"fault"`
		Alias  int            `json:"alias,omitempty"`
	}
	var out []sb
	for _, b := range c.Blocks {
		f := b.Fault
		out = append(out, sb{len(b.Data), b.Prefix, f, b.Alias})
	}
	return map[string]any{"no_prefix": c.NoPrefix, "inner": c.Inner, "blocks": out}
}

var specV = kit.Spec[VCase]{
	Prop: "C03", Name: "vbs",
	Rule:  "1-4 honest blocks (kit hashes incl. identity, CIDv0/v1, <=4 KiB quick / 100 KB thorough) stored through a ValidatingBlockstore over (a) the stock datastore-backed blockstore or (b) a test-double Blockstore that labels the block it returns with the requested CID / the CID recomputed from the held bytes under the requested prefix / blocks.NewBlock of the held bytes / the CID of the original Put; the backing value of each block is then replaced (flip/truncate/extend/prepend/swap/foreign bytes/delete/intact); Get through own or alias CID; non-trivial = at least one backing value differs from the original",
	Quick: 2000, Thorough: 15000,
	Gen: genV, Run: runV, Sample: sampleV,
}

func TestPropVBS(t *testing.T) { kit.All(t, specV) }

// ---- exhaustive grid

var enumPrefixes = []kit.PrefixSpec{
	{Version: 0, Codec: cid.DagProtobuf, MhType: mh.SHA2_256, MhLength: 32},
	{Version: 1, Codec: cid.Raw, MhType: mh.SHA2_256, MhLength: 32},
	{Version: 1, Codec: cid.DagCBOR, MhType: mh.SHA2_512, MhLength: 64},
	{Version: 1, Codec: cid.Raw, MhType: mh.BLAKE2B_MIN + 31, MhLength: 32},
	{Version: 1, Codec: cid.DagProtobuf, MhType: mh.SHA3_256, MhLength: 32},
	{Version: 1, Codec: cid.Raw, MhType: mh.IDENTITY, MhLength: -1},
}

func patternBytes(n, kind int) []byte {
	b := make([]byte, n)
	for i := range b {
		switch kind {
		case 0:
			b[i] = byte(i*7 + n + 1)
		default:
			b[i] = 0
		}
	}
	return b
}

func enumV(yield func(VCase) bool) {
	var lens []int
	if kit.Tier() == "thorough" {
		for n := 1; n <= 64; n++ {
			lens = append(lens, n)
		}
	} else {
		lens = []int{1, 2, 3, 8, 31, 32, 33, 64}
	}
	bitMasks := []byte{1, 2, 4, 8, 16, 32, 64, 128, 255}
	one := func(b BlockSpec, more ...BlockSpec) bool {
		bl := append([]BlockSpec{b}, more...)
		// the same fault under the stock blockstore and under a double that derives the label
		// of the returned block from the held bytes
		return yield(VCase{Blocks: bl}) && yield(VCase{Blocks: bl, Inner: labelSum})
	}
	for _, p := range enumPrefixes {
		for _, n := range lens {
			for kind := 0; kind < 2; kind++ {
				data := patternBytes(n, kind)
				mk := func(f Fault) BlockSpec { return BlockSpec{Data: data, Prefix: p, Fault: f} }
				if !one(mk(Fault{Kind: "intact"})) || !one(mk(Fault{Kind: "delete"})) {
					return
				}
				for pos := 0; pos < n; pos++ {
					if kit.Tier() == "thorough" && n <= 16 {
						for x := 1; x <= 255; x++ {
							if !one(mk(Fault{Kind: "flip", Pos: pos, Xor: byte(x)})) {
								return
							}
						}
					} else {
						for _, x := range bitMasks {
							if !one(mk(Fault{Kind: "flip", Pos: pos, Xor: x})) {
								return
							}
						}
					}
				}
				for l := 0; l < n; l++ {
					if !one(mk(Fault{Kind: "trunc", Len: l})) {
						return
					}
				}
				for k := 1; k <= 8; k++ {
					for _, fill := range []byte{0, data[n-1]} {
						if !one(mk(Fault{Kind: "extend", Ext: bytes.Repeat([]byte{fill}, k)})) {
							return
						}
					}
				}
				for _, fill := range []byte{0, data[0]} {
					if !one(mk(Fault{Kind: "prepend", Ext: []byte{fill}})) {
						return
					}
				}
				for i := 0; i+1 < n; i++ {
					if !one(mk(Fault{Kind: "swap", Pos: i, J: i + 1})) {
						return
					}
				}
				if n > 2 && !one(mk(Fault{Kind: "swap", Pos: 0, J: n - 1})) {
					return
				}
				// another block's bytes: same length / different length, same hash function
				donor1 := BlockSpec{Data: patternBytes(n, 1-kind), Prefix: p, Fault: Fault{Kind: "intact"}}
				donor2 := BlockSpec{Data: patternBytes(n+5, kind), Prefix: p, Fault: Fault{Kind: "intact"}}
				if !one(mk(Fault{Kind: "other", Other: 1}), donor1) || !one(mk(Fault{Kind: "other", Other: 1}), donor2) {
					return
				}
			}
		}
	}
}

var specVEnum = kit.Spec[VCase]{
	Prop: "C03", Name: "vbs-enum",
	Rule: "exhaustive grid: 2 backing stores (stock datastore-backed blockstore; test-double Blockstore labelling the returned block with the CID recomputed from the held bytes) x 6 CID prefixes (sha2-256 v0/v1, sha2-512, blake2b-256, sha3-256, identity) x block lengths (quick {1,2,3,8,31,32,33,64}, thorough 1..64) x 2 contents x {every byte position x flip masks (9 masks; thorough all 255 for len<=16), every truncation length, extension by 1..8 bytes, 1-byte prepend, adjacent/outer swaps, another block's bytes, delete, intact}; non-trivial = backing value differs from the original",
	Run:  runV, Sample: sampleV,
}

func TestPropVBSEnum(t *testing.T) {
	if kit.Shard() != "0" {
		t.Skip("exhaustive grid runs in shard 0 only")
	}
	t.Run("replay", func(t *testing.T) { kit.Replay(t, specVEnum) })
	t.Run("findings", func(t *testing.T) { kit.RunFindings(t, specVEnum) })
	t.Run("grid", func(t *testing.T) { kit.Exhaustive(t, specVEnum, enumV) })
}

// ===========================================================================
// filestore: file references

var fsHashes = []struct {
	Code uint64
	Len  int
}{{mh.SHA2_256, 32}, {mh.SHA2_512, 64}, {mh.BLAKE2B_MIN + 31, 32}, {mh.SHA3_256, 32}}

type Region struct {
	Off  int `json:"off"`
	Size int `json:"size"`
}

// Step mutates the backing file after the references were written.
type Step struct {
	Kind string `json:"kind"`           // flip | trunc | append | insert | remove | dir | restore | replace | rewrite
	Pos  int    `json:"pos,omitempty"`  // flip, insert
	Xor  byte   `json:"xor,omitempty"`  // flip
	Len  int    `json:"len,omitempty"`  // trunc
	Data []byte `json:"data,omitempty"` // append, insert, replace
	// KeepTime: the file's previous mtime is put back after the step (cp -p, rsync -t,
	// touch -r); only when the path is a regular file before and after
	KeepTime bool `json:"keep_time,omitempty"`
}

type FCase struct {
	Mmap    bool     `json:"mmap,omitempty"`
	SubDir  bool     `json:"subdir,omitempty"`
	Hash    int      `json:"hash"`
	PutMany bool     `json:"put_many,omitempty"`
	File    []byte   `json:"file"`
	Regions []Region `json:"regions"`
	Steps   []Step   `json:"steps"`
}

// fileModel is the harness' view of the backing path.
type fileModel struct {
	state string // "file" | "absent" | "dir"
	data  []byte
}

// next computes the model after a step; ok=false means the step does not apply in this state
// (it is then skipped on disk as well).
func (m fileModel) next(s Step, orig []byte) (fileModel, bool) {
	switch s.Kind {
	case "restore":
		return fileModel{"file", append([]byte(nil), orig...)}, true
	case "replace":
		return fileModel{"file", append([]byte(nil), s.Data...)}, true
	case "remove":
		if m.state == "absent" {
			return m, false
		}
		return fileModel{state: "absent"}, true
	case "dir":
		if m.state == "dir" {
			return m, false
		}
		return fileModel{state: "dir"}, true
	}
	if m.state != "file" {
		return m, false
	}
	d := append([]byte(nil), m.data...)
	switch s.Kind {
	case "flip":
		if s.Pos < 0 || s.Pos >= len(d) || s.Xor == 0 {
			return m, false
		}
		d[s.Pos] ^= s.Xor
	case "trunc":
		if s.Len < 0 || s.Len > len(d) {
			return m, false
		}
		d = d[:s.Len]
	case "append":
		d = append(d, s.Data...)
	case "insert":
		if s.Pos < 0 || s.Pos > len(d) {
			return m, false
		}
		d = append(d[:s.Pos:s.Pos], append(append([]byte(nil), s.Data...), m.data[s.Pos:]...)...)
	case "rewrite": // same bytes written again (mtime changes, content does not)
	default:
		return m, false
	}
	return fileModel{"file", d}, true
}

// materialise puts the model state on disk at path, the way the step kind would do it.
func materialise(path string, s Step, m fileModel) error {
	switch s.Kind {
	case "remove":
		return os.RemoveAll(path)
	case "dir":
		if err := os.RemoveAll(path); err != nil {
			return err
		}
		return os.Mkdir(path, 0o755)
	case "trunc":
		return os.Truncate(path, int64(s.Len))
	case "append":
		f, err := os.OpenFile(path, os.O_WRONLY|os.O_APPEND, 0)
		if err != nil {
			return err
		}
		if _, err := f.Write(s.Data); err != nil {
			f.Close()
			return err
		}
		return f.Close()
	case "flip":
		f, err := os.OpenFile(path, os.O_WRONLY, 0)
		if err != nil {
			return err
		}
		if _, err := f.WriteAt([]byte{m.data[s.Pos]}, int64(s.Pos)); err != nil {
			f.Close()
			return err
		}
		return f.Close()
	case "replace", "restore":
		// new inode moved into place (what editors and rsync do)
		if err := os.RemoveAll(path); err != nil {
			return err
		}
		tmp := path + ".new"
		if err := os.WriteFile(tmp, m.data, 0o644); err != nil {
			return err
		}
		return os.Rename(tmp, path)
	default: // insert, rewrite: rewritten in place
		return os.WriteFile(path, m.data, 0o644)
	}
}

func regionIntact(m fileModel, r Region, want []byte) bool {
	return m.state == "file" && r.Off+r.Size <= len(m.data) && bytes.Equal(m.data[r.Off:r.Off+r.Size], want)
}

func corruptCode(err error) (filestore.Status, bool) {
	var cre *filestore.CorruptReferenceError
	if !errors.As(err, &cre) {
		return 0, false
	}
	switch cre.Code {
	case filestore.StatusFileError, filestore.StatusFileNotFound, filestore.StatusFileChanged:
		return cre.Code, true
	}
	return cre.Code, false
}

// transportTrouble: the error is a CorruptReferenceError wrapping a net/http client error
// (*url.Error), i.e. no HTTP response was received at all.
func transportTrouble(err error) bool {
	var cre *filestore.CorruptReferenceError
	if !errors.As(err, &cre) || cre.Err == nil {
		return false
	}
	var ue *url.Error
	return errors.As(cre.Err, &ue)
}

type refGroup struct {
	c       cid.Cid
	data    []byte
	regions []Region
}

// checkRefs reads every referenced block and compares with the model. expect(g) returns
// mustServe (every stored region of the block still holds its bytes) and mustFail (no region
// holds them any more). It returns (failing result, failed, sawCorrupt). A harness timeout is
// recorded as class "harness:timeout" and ends the case without a verdict.
func checkRefs(ctx context.Context, fs *filestore.Filestore, groups []*refGroup, where string,
	expect func(g *refGroup) (mustServe, mustFail bool), cls map[string]struct{}) (kit.Result, bool, bool) {
	sawCorrupt := false
	for gi, g := range groups {
		mustServe, mustFail := expect(g)
		got, err := fs.Get(ctx, g.c)
		vr := filestore.Verify(ctx, fs, g.c)
		if ctx.Err() != nil {
			addClass(cls, "harness:timeout")
			return kit.Result{}, false, false
		}
		if err == nil {
			if got == nil {
				return kit.Fail("%s: ref %d: Get returned (nil, nil)", where, gi), true, false
			}
			if !hashesTo(g.c, got.RawData()) {
				return kit.Fail("%s: ref %d %v: Get returned %d bytes that do not hash to the CID", where, gi, g.regions, len(got.RawData())), true, false
			}
			if !bytes.Equal(got.RawData(), g.data) {
				return kit.Fail("%s: ref %d %v: Get returned bytes different from the referenced block", where, gi, g.regions), true, false
			}
			if mustFail {
				return kit.Fail("%s: ref %d %v: region no longer holds the block but Get served it", where, gi, g.regions), true, false
			}
			if !got.Cid().Equals(g.c) {
				return kit.Fail("%s: ref %d: Get(%s) returned block with CID %s", where, gi, g.c, got.Cid()), true, false
			}
			addClass(cls, "served")
		} else {
			if mustServe && transportTrouble(err) {
				// URL variant only: the loopback request itself failed (dial/reset under load), the
				// server never got to answer - no verdict for this read
				addClass(cls, "harness:net-error")
				continue
			}
			if mustServe {
				return kit.Fail("%s: ref %d %v: region is unchanged but Get failed: %v", where, gi, g.regions, err), true, false
			}
			code, ok := corruptCode(err)
			if !ok {
				return kit.Fail("%s: ref %d %v: corrupted reference reported as %T %v (want *CorruptReferenceError with a file status)", where, gi, g.regions, err, err), true, false
			}
			sawCorrupt = true
			addClass(cls, "corrupt:"+code.String())
		}
		// Verify (the package's own reference checker) must agree with Get. Both read the
		// file; nothing changes in between.
		if vr == nil {
			return kit.Fail("%s: ref %d: Verify returned nil", where, gi), true, false
		}
		if (vr.Status == filestore.StatusOk) != (err == nil) {
			return kit.Fail("%s: ref %d %v: Verify status %q but Get error is %v", where, gi, g.regions, vr.Status.String(), err), true, false
		}
	}
	return kit.Result{}, false, sawCorrupt
}

func buildGroups(file []byte, regions []Region, hash int) ([]*refGroup, []*posinfo.FilestoreNode, error) {
	h := fsHashes[hash%len(fsHashes)]
	bld := cid.V1Builder{Codec: cid.Raw, MhType: h.Code, MhLength: h.Len}
	var groups []*refGroup
	byCid := map[string]*refGroup{}
	var nodes []*posinfo.FilestoreNode
	for _, r := range regions {
		if r.Off < 0 || r.Size < 0 || r.Off+r.Size > len(file) {
			continue
		}
		data := file[r.Off : r.Off+r.Size]
		nd, err := dag.NewRawNodeWPrefix(append([]byte(nil), data...), bld)
		if err != nil {
			return nil, nil, err
		}
		nodes = append(nodes, &posinfo.FilestoreNode{Node: nd, PosInfo: &posinfo.PosInfo{Offset: uint64(r.Off)}})
		k := nd.Cid().KeyString()
		g, ok := byCid[k]
		if !ok {
			g = &refGroup{c: nd.Cid(), data: data}
			byCid[k] = g
			groups = append(groups, g)
		}
		g.regions = append(g.regions, r)
	}
	return groups, nodes, nil
}

func runF(c FCase) kit.Result {
	ctx, cancel := context.WithTimeout(context.Background(), 30*time.Second)
	defer cancel()
	root, err := os.MkdirTemp(tmpParent(), "c03fs")
	if err != nil {
		panic(err)
	}
	defer os.RemoveAll(root)
	dir := root
	if c.SubDir {
		dir = filepath.Join(root, "sub dir", "x")
		if err := os.MkdirAll(dir, 0o755); err != nil {
			panic(err)
		}
	}
	path := filepath.Join(dir, "data.bin")
	if err := os.WriteFile(path, c.File, 0o644); err != nil {
		panic(err)
	}

	mds := dssync.MutexWrap(ds.NewMapDatastore())
	var fmOpts []filestore.Option
	if c.Mmap {
		fmOpts = append(fmOpts, filestore.WithMMapReader())
	}
	fm := filestore.NewFileManager(mds, root, fmOpts...)
	fm.AllowFiles = true
	fs := filestore.NewFilestore(blockstore.NewBlockstore(mds), fm, nil)

	groups, nodes, err := buildGroups(c.File, c.Regions, c.Hash)
	if err != nil {
		panic(err)
	}
	if len(nodes) == 0 {
		return kit.Result{Classes: []string{"no-regions"}}
	}
	for _, n := range nodes {
		n.PosInfo.FullPath = path
	}
	if c.PutMany {
		bl := make([]blocks.Block, len(nodes))
		for i, n := range nodes {
			bl[i] = n
		}
		if err := fs.PutMany(ctx, bl); err != nil {
			return kit.Fail("PutMany of references inside the root: %v", err)
		}
	} else {
		for i, n := range nodes {
			if err := fs.Put(ctx, n); err != nil {
				return kit.Fail("Put of reference %d inside the root: %v", i, err)
			}
		}
	}

	cls := map[string]struct{}{}
	model := fileModel{"file", append([]byte(nil), c.File...)}
	expect := func(g *refGroup) (bool, bool) {
		all, none := true, true
		for _, r := range g.regions {
			if regionIntact(model, r, g.data) {
				none = false
			} else {
				all = false
			}
		}
		if len(g.data) == 0 {
			// an empty block cannot be corrupted; whether an empty read at/after the end of a
			// shrunken (or, with mmap, empty) file succeeds is not part of the property
			return all && len(model.data) > 0, false
		}
		return all, none
	}
	timedOut := func() bool { _, to := cls["harness:timeout"]; return to }
	// before any mutation every reference must be served
	if res, failed, _ := checkRefs(ctx, fs, groups, "before mutation", expect, cls); failed {
		return res
	}
	if timedOut() {
		return kit.Result{Classes: classList(cls)}
	}
	nonTrivial := false
	for si, s := range c.Steps {
		nm, ok := model.next(s, c.File)
		if !ok {
			addClass(cls, "step-skipped")
			continue
		}
		var oldTime time.Time
		keep := false
		if s.KeepTime && model.state == "file" && nm.state == "file" {
			if st, err := os.Stat(path); err == nil {
				oldTime, keep = st.ModTime(), true
			}
		}
		if err := materialise(path, s, nm); err != nil {
			panic(fmt.Sprintf("harness: step %d %s: %v", si, s.Kind, err))
		}
		if keep {
			if err := os.Chtimes(path, oldTime, oldTime); err != nil {
				panic(fmt.Sprintf("harness: step %d %s: chtimes: %v", si, s.Kind, err))
			}
			addClass(cls, "step-keeps-mtime")
		}
		model = nm
		addClass(cls, "step:"+s.Kind)
		// harness self-check: disk equals model
		if model.state == "file" {
			onDisk, err := os.ReadFile(path)
			if err != nil || !bytes.Equal(onDisk, model.data) {
				panic(fmt.Sprintf("harness: disk and model disagree after step %d %s (%v)", si, s.Kind, err))
			}
		}
		res, failed, sawCorrupt := checkRefs(ctx, fs, groups, fmt.Sprintf("after step %d (%s)", si, s.Kind), expect, cls)
		if failed {
			return res
		}
		if timedOut() {
			return kit.Result{Classes: classList(cls)}
		}
		if sawCorrupt {
			nonTrivial = true
		}
	}
	if c.Mmap {
		addClass(cls, "reader:mmap")
	} else {
		addClass(cls, "reader:std")
	}
	return kit.Result{NonTrivial: nonTrivial, Classes: classList(cls)}
}

// ---- generated search

func genRegions(t *rapid.T, n int, maxRegions int) []Region {
	var rs []Region
	if rapid.Bool().Draw(t, "chunked") {
		// consecutive chunks of one size, like the importer produces
		cs := rapid.IntRange(1, n).Draw(t, "chunk")
		for off := 0; off < n && len(rs) < maxRegions; off += cs {
			sz := cs
			if off+sz > n {
				sz = n - off
			}
			rs = append(rs, Region{off, sz})
		}
		return rs
	}
	k := rapid.IntRange(1, maxRegions).Draw(t, "nregions")
	for i := 0; i < k; i++ {
		off := rapid.IntRange(0, n-1).Draw(t, "off")
		minSize := 1
		if rapid.IntRange(0, 19).Draw(t, "empty") == 0 {
			minSize = 0
		}
		sz := rapid.IntRange(minSize, n-off).Draw(t, "size")
		rs = append(rs, Region{off, sz})
	}
	return rs
}

func genSteps(t *rapid.T, file []byte, regions []Region, maxSteps int) []Step {
	var steps []Step
	m := fileModel{"file", append([]byte(nil), file...)}
	ns := rapid.IntRange(1, maxSteps).Draw(t, "nsteps")
	for i := 0; i < ns; i++ {
		var kinds []string
		if m.state == "file" && len(m.data) > 0 {
			kinds = []string{"flip", "flip", "flip", "trunc", "trunc", "append", "insert", "remove", "dir", "replace", "rewrite", "restore"}
		} else if m.state == "file" {
			kinds = []string{"append", "remove", "dir", "replace", "restore"}
		} else {
			kinds = []string{"restore", "restore", "replace", "remove", "dir"}
		}
		s := Step{Kind: rapid.SampledFrom(kinds).Draw(t, "step")}
		s.KeepTime = rapid.IntRange(0, 3).Draw(t, "keeptime") == 0
		r := regions[rapid.IntRange(0, len(regions)-1).Draw(t, "target")]
		n := len(m.data)
		clamp := func(v, lo, hi int) int {
			if v < lo {
				return lo
			}
			if v > hi {
				return hi
			}
			return v
		}
		switch s.Kind {
		case "flip":
			switch rapid.IntRange(0, 3).Draw(t, "where") {
			case 0: // inside the target region
				s.Pos = clamp(r.Off+rapid.IntRange(0, max(r.Size-1, 0)).Draw(t, "in"), 0, n-1)
			case 1: // boundary neighbours
				s.Pos = clamp(rapid.SampledFrom([]int{r.Off - 1, r.Off, r.Off + r.Size - 1, r.Off + r.Size}).Draw(t, "edge"), 0, n-1)
			default:
				s.Pos = rapid.IntRange(0, n-1).Draw(t, "pos")
			}
			s.Xor = rapid.OneOf(rapid.SampledFrom([]byte{1, 128, 255}), rapid.ByteRange(1, 255)).Draw(t, "xor")
		case "trunc":
			switch rapid.IntRange(0, 2).Draw(t, "where") {
			case 0:
				s.Len = clamp(kit.Around(r.Off+r.Size, 0, n).Draw(t, "end"), 0, n)
			case 1:
				s.Len = clamp(kit.Around(r.Off, 0, n).Draw(t, "start"), 0, n)
			default:
				s.Len = rapid.IntRange(0, n).Draw(t, "len")
			}
		case "append":
			s.Data = rapid.SliceOfN(rapid.Byte(), 1, 16).Draw(t, "data")
		case "insert":
			s.Pos = clamp(rapid.OneOf(rapid.IntRange(0, n), rapid.SampledFrom([]int{0, r.Off, r.Off + r.Size, n})).Draw(t, "at"), 0, n)
			s.Data = rapid.SliceOfN(rapid.Byte(), 1, 4).Draw(t, "data")
		case "replace":
			switch rapid.IntRange(0, 2).Draw(t, "how") {
			case 0: // same length, other content
				s.Data = kit.FillBytes(t, len(file))
			case 1: // identical content, new inode
				s.Data = append([]byte(nil), file...)
			default:
				s.Data = kit.Bytes(len(file)+16).Draw(t, "data")
			}
		}
		nm, ok := m.next(s, file)
		if !ok {
			continue
		}
		m = nm
		steps = append(steps, s)
	}
	return steps
}

func genF(t *rapid.T) FCase {
	c := FCase{
		Mmap:    rapid.Bool().Draw(t, "mmap"),
		SubDir:  rapid.IntRange(0, 3).Draw(t, "subdir") == 0,
		Hash:    rapid.IntRange(0, len(fsHashes)-1).Draw(t, "hash"),
		PutMany: rapid.IntRange(0, 3).Draw(t, "putmany") == 0,
	}
	n := 1 + kit.Length(kit.Scale(2048, 100000)).Draw(t, "filelen")
	c.File = kit.FillBytes(t, n)
	c.Regions = genRegions(t, n, 6)
	c.Steps = genSteps(t, c.File, c.Regions, 3)
	return c
}

func sampleF(c FCase) any {
	type ss struct {
		Kind string `json:"kind"`
		Pos  int    `json:"pos,omitempty"`
		Xor  byte   `json:"xor,omitempty"`
		Len  int    `json:"len,omitempty"`
		N    int    `json:"data_len,omitempty"`
	}
	var steps []ss
	for _, s := range c.Steps {
		steps = append(steps, ss{s.Kind, s.Pos, s.Xor, s.Len, len(s.Data)})
	}
	return map[string]any{"mmap": c.Mmap, "subdir": c.SubDir, "hash": c.Hash, "put_many": c.PutMany, "file_len": len(c.File), "regions": c.Regions, "steps": steps}
}

var specF = kit.Spec[FCase]{
	Prop: "C03", Name: "fs",
	Rule:  "file (1..2 KiB quick / 100 KB thorough) under the filestore root, 1-6 referenced regions (importer-like chunks or arbitrary overlapping regions, 4 hash functions, std or mmap reader, Put or PutMany); then 1-3 file mutations (flip inside/at the edge of/outside a region, truncate around region bounds, append, insert-shift, remove, replace by directory, replace by new inode with same/other content, rewrite, restore) with every reference read after each; non-trivial = at least one read was reported corrupt",
	Quick: 800, Thorough: 8000,
	Gen: genF, Run: runF, Sample: sampleF,
}

func TestPropFS(t *testing.T) { kit.All(t, specF) }

// ---- exhaustive grid on a small file

func enumF(yield func(FCase) bool) {
	n := kit.Scale(24, 40)
	file := patternBytes(n, 0)
	regions := []Region{{0, 8}, {8, 8}, {16, 8}, {4, 12}, {0, n}, {n - 1, 1}}
	masks := []byte{1, 128, 255}
	if kit.Tier() == "thorough" {
		masks = []byte{1, 2, 4, 8, 16, 32, 64, 128, 255}
	}
	for _, mm := range []bool{false, true} {
		for hash := range fsHashes {
			if hash > 0 && kit.Tier() != "thorough" {
				break
			}
			mk := func(steps ...Step) FCase {
				return FCase{Mmap: mm, Hash: hash, File: file, Regions: regions, Steps: steps}
			}
			restore := Step{Kind: "restore"}
			for pos := 0; pos < n; pos++ {
				for _, x := range masks {
					if !yield(mk(Step{Kind: "flip", Pos: pos, Xor: x})) {
						return
					}
				}
				if !yield(mk(Step{Kind: "insert", Pos: pos, Data: []byte{0x5a}})) {
					return
				}
			}
			for l := 0; l <= n; l++ {
				if !yield(mk(Step{Kind: "trunc", Len: l}, restore)) {
					return
				}
			}
			for k := 1; k <= 8; k++ {
				if !yield(mk(Step{Kind: "append", Data: bytes.Repeat([]byte{file[n-1]}, k)})) {
					return
				}
			}
			other := patternBytes(n, 1)
			for _, steps := range [][]Step{
				{{Kind: "remove"}, restore},
				{{Kind: "dir"}, restore},
				{{Kind: "replace", Data: file}},
				{{Kind: "replace", Data: other}, restore},
				{{Kind: "replace", Data: nil}, restore},
				{{Kind: "rewrite"}},
				{{Kind: "flip", Pos: 9, Xor: 1}, {Kind: "flip", Pos: 9, Xor: 1}},
			} {
				if !yield(mk(steps...)) {
					return
				}
			}
		}
	}
}

var specFEnum = kit.Spec[FCase]{
	Prop: "C03", Name: "fs-enum",
	Rule: "exhaustive grid on a 24-byte (thorough 40-byte, 4 hash functions) file with 6 fixed regions, std and mmap reader: every byte position x flip masks, 1-byte insertion at every position, truncation to every length followed by restore, growth by 1..8 bytes, remove/dir/replace(same, other, empty)/rewrite/double flip; non-trivial = at least one read was reported corrupt",
	Run:  runF, Sample: sampleF,
}

func TestPropFSEnum(t *testing.T) {
	if kit.Shard() != "0" {
		t.Skip("exhaustive grid runs in shard 0 only")
	}
	t.Run("replay", func(t *testing.T) { kit.Replay(t, specFEnum) })
	t.Run("findings", func(t *testing.T) { kit.RunFindings(t, specFEnum) })
	t.Run("grid", func(t *testing.T) { kit.Exhaustive(t, specFEnum, enumF) })
}

// ===========================================================================
// filestore: URL references through an in-process HTTP server (127.0.0.1)

// Mode is what the HTTP server does after the references were written.
type Mode struct {
	Kind   string `json:"kind"`             // ok | ok200 | flip | short | grow | status | shift | extra | empty | hangup
	Pos    int    `json:"pos,omitempty"`    // flip
	Xor    byte   `json:"xor,omitempty"`    // flip
	Len    int    `json:"len,omitempty"`    // short: new content length
	Status int    `json:"status,omitempty"` // status
	Shift  int    `json:"shift,omitempty"`  // shift: offset error (non-zero)
}

type UCase struct {
	Hash    int      `json:"hash"`
	Content []byte   `json:"content"`
	Regions []Region `json:"regions"` // sizes >= 1
	Modes   []Mode   `json:"modes"`
}

// respond is the server model: given the requested range it yields status and body.
// honest=true means the server behaved like a correct HTTP range server over some content.
func respond(m Mode, content []byte, start, end int, hasRange bool) (status int, body []byte, hangup bool) {
	cur := content
	switch m.Kind {
	case "flip":
		cur = append([]byte(nil), content...)
		if m.Pos >= 0 && m.Pos < len(cur) {
			cur[m.Pos] ^= m.Xor
		}
	case "short":
		if m.Len >= 0 && m.Len < len(cur) {
			cur = cur[:m.Len]
		}
	case "grow":
		cur = append(append([]byte(nil), content...), 0xAA, 0xBB, 0xCC)
	case "hangup":
		return 0, nil, true
	case "status":
		// the right bytes, but under a failure status
		if hasRange && start >= 0 && end < len(cur) && start <= end {
			return m.Status, cur[start : end+1], false
		}
		return m.Status, nil, false
	case "empty":
		return http.StatusPartialContent, nil, false
	case "ok200":
		return http.StatusOK, cur, false
	}
	if !hasRange {
		return http.StatusOK, cur, false
	}
	if m.Kind == "shift" {
		start += m.Shift
		end += m.Shift
	}
	if start < 0 || start >= len(cur) || start > end {
		return http.StatusRequestedRangeNotSatisfiable, nil, false
	}
	if end >= len(cur) {
		end = len(cur) - 1
	}
	body = cur[start : end+1]
	if m.Kind == "extra" {
		body = append(append([]byte(nil), body...), 0xEE, 0xEE)
	}
	return http.StatusPartialContent, body, false
}

func parseRange(h string) (start, end int, ok bool) {
	if !strings.HasPrefix(h, "bytes=") {
		return 0, 0, false
	}
	a, b, found := strings.Cut(strings.TrimPrefix(h, "bytes="), "-")
	if !found {
		return 0, 0, false
	}
	s, err1 := strconv.Atoi(a)
	e, err2 := strconv.Atoi(b)
	if err1 != nil || err2 != nil {
		return 0, 0, false
	}
	return s, e, true
}

func runU(c UCase) kit.Result {
	ctx, cancel := context.WithTimeout(context.Background(), 30*time.Second)
	defer cancel()
	var modeMu sync.Mutex
	mode := Mode{Kind: "ok"}
	srv := httptest.NewServer(http.HandlerFunc(func(w http.ResponseWriter, r *http.Request) {
		s, e, has := parseRange(r.Header.Get("Range"))
		modeMu.Lock()
		cur := mode
		modeMu.Unlock()
		status, body, hang := respond(cur, c.Content, s, e, has)
		if hang {
			if hj, ok := w.(http.Hijacker); ok {
				if conn, _, err := hj.Hijack(); err == nil {
					conn.Close()
					return
				}
			}
			status, body = http.StatusInternalServerError, nil
		}
		w.Header().Set("Content-Length", strconv.Itoa(len(body)))
		w.WriteHeader(status)
		w.Write(body)
	}))
	defer func() {
		srv.Close()
		http.DefaultClient.CloseIdleConnections()
	}()
	refURL := srv.URL + "/data.bin"

	root, err := os.MkdirTemp(tmpParent(), "c03url")
	if err != nil {
		panic(err)
	}
	defer os.RemoveAll(root)
	mds := dssync.MutexWrap(ds.NewMapDatastore())
	fm := filestore.NewFileManager(mds, root)
	fm.AllowUrls = true
	fs := filestore.NewFilestore(blockstore.NewBlockstore(mds), fm, nil)

	var regions []Region
	for _, r := range c.Regions {
		if r.Size >= 1 {
			regions = append(regions, r)
		}
	}
	groups, nodes, err := buildGroups(c.Content, regions, c.Hash)
	if err != nil {
		panic(err)
	}
	if len(nodes) == 0 {
		return kit.Result{Classes: []string{"no-regions"}}
	}
	for i, n := range nodes {
		n.PosInfo.FullPath = refURL
		if err := fs.Put(ctx, n); err != nil {
			return kit.Fail("Put of URL reference %d: %v", i, err)
		}
	}
	cls := map[string]struct{}{}
	nonTrivial := false
	modes := append([]Mode{{Kind: "ok"}}, c.Modes...)
	for mi, m := range modes {
		modeMu.Lock()
		mode = m
		modeMu.Unlock()
		expect := func(g *refGroup) (bool, bool) {
			all, none := true, true
			for _, r := range g.regions {
				st, body, hang := respond(m, c.Content, r.Off, r.Off+r.Size-1, true)
				good := !hang && (st == 200 || st == 206) && len(body) >= r.Size && bytes.Equal(body[:r.Size], g.data)
				if good {
					none = false
				} else {
					all = false
				}
			}
			// "must be served" is only demanded where the server is a correct range server whose
			// content still holds the region; other modes that happen to deliver the right bytes
			// (ok200 at offset 0, extra) may go either way.
			switch m.Kind {
			case "ok", "grow", "flip", "short":
			default:
				all = false
			}
			return all, none
		}
		res, failed, sawCorrupt := checkRefs(ctx, fs, groups, fmt.Sprintf("server mode %d (%s)", mi, m.Kind), expect, cls)
		if failed {
			return res
		}
		if _, to := cls["harness:timeout"]; to {
			return kit.Result{Classes: classList(cls)}
		}
		if sawCorrupt {
			nonTrivial = true
		}
		addClass(cls, "mode:"+m.Kind)
	}
	return kit.Result{NonTrivial: nonTrivial, Classes: classList(cls)}
}

func genU(t *rapid.T) UCase {
	c := UCase{Hash: rapid.IntRange(0, len(fsHashes)-1).Draw(t, "hash")}
	n := 1 + kit.Length(kit.Scale(1024, 20000)).Draw(t, "len")
	c.Content = kit.FillBytes(t, n)
	for _, r := range genRegions(t, n, 4) {
		if r.Size >= 1 {
			c.Regions = append(c.Regions, r)
		}
	}
	if len(c.Regions) == 0 {
		c.Regions = []Region{{0, n}}
	}
	nm := rapid.IntRange(1, 3).Draw(t, "nmodes")
	for i := 0; i < nm; i++ {
		m := Mode{Kind: rapid.SampledFrom([]string{"ok", "ok200", "flip", "flip", "short", "short", "grow", "status", "shift", "extra", "empty", "hangup"}).Draw(t, "mode")}
		r := c.Regions[rapid.IntRange(0, len(c.Regions)-1).Draw(t, "target")]
		switch m.Kind {
		case "flip":
			if rapid.Bool().Draw(t, "inside") {
				m.Pos = r.Off + rapid.IntRange(0, r.Size-1).Draw(t, "in")
			} else {
				m.Pos = rapid.IntRange(0, n-1).Draw(t, "pos")
			}
			m.Xor = rapid.ByteRange(1, 255).Draw(t, "xor")
		case "short":
			m.Len = rapid.OneOf(rapid.IntRange(0, n-1), kit.Around(r.Off+r.Size, 0, n-1), kit.Around(r.Off, 0, n-1)).Draw(t, "len")
		case "status":
			m.Status = rapid.SampledFrom([]int{404, 410, 403, 500, 503, 416}).Draw(t, "status")
		case "shift":
			m.Shift = rapid.SampledFrom([]int{-1, 1, 2, r.Size}).Draw(t, "shift")
		}
		c.Modes = append(c.Modes, m)
	}
	return c
}

func sampleU(c UCase) any {
	return map[string]any{"hash": c.Hash, "content_len": len(c.Content), "regions": c.Regions, "modes": c.Modes}
}

var specU = kit.Spec[UCase]{
	Prop: "C03", Name: "url",
	Rule:  "content (<=1 KiB quick / 20 KB thorough) served by an in-process HTTP server on 127.0.0.1, 1-4 URL references (regions >= 1 byte); after a first honest read the server changes behaviour 1-3 times (honest, ignores Range with 200, flipped byte inside/outside the region, shortened content, grown content, failure status with the right bytes, wrong range, extra trailing bytes, empty 206, connection hang-up); every reference read in each mode; non-trivial = at least one read was reported corrupt",
	Quick: 400, Thorough: 3000,
	Gen: genU, Run: runU, Sample: sampleU,
}

func TestPropURL(t *testing.T) { kit.All(t, specU) }
