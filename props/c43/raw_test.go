package c43

import (
	"bytes"
	"encoding/json"
	"fmt"
	"reflect"
	"testing"

	"github.com/ipfs/boxo/routing/http/types/iter"
	"pgregory.net/rapid"
	"verif/kit"
)

// Sub-check "raw": the combinators are stacked directly on each other (no counting
// wrapper between stages, so type-based shortcuts inside the library are reachable);
// only the source is instrumented.
//
// Sub-check "json": JSON iterator over structured elements (maps, structs with omitted
// fields, slices), each element compared with an independent decode of its own text.

type RawCase struct {
	Src    []int `json:"src"`
	Ops    []Op  `json:"ops"`
	Closes int   `json:"closes"`
}

func genRaw(t *rapid.T) RawCase {
	c := RawCase{}
	c.Src = rapid.SliceOfN(rapid.IntRange(-20, 20), 0, 50).Draw(t, "src")
	n := rapid.SampledFrom([]int{1, 2, 2, 3, 3, 4, 4}).Draw(t, "depth")
	for i := 0; i < n; i++ {
		k := rapid.SampledFrom([]string{"map", "filter", "limit", "limit", "limit"}).Draw(t, "op")
		var a int
		switch k {
		case "map":
			a = rapid.IntRange(0, len(mapFns)-1).Draw(t, "f")
		case "filter":
			a = rapid.IntRange(0, len(filterFns)-1).Draw(t, "p")
		case "limit":
			a = rapid.OneOf(rapid.IntRange(-1, 60), rapid.IntRange(-1, 1), rapid.IntRange(0, len(c.Src)+1)).Draw(t, "k")
		}
		c.Ops = append(c.Ops, Op{k, a})
	}
	c.Closes = rapid.IntRange(1, 2).Draw(t, "closes")
	return c
}

func listSemantics(src []int, ops []Op) []int {
	want := append([]int(nil), src...)
	for _, op := range ops {
		var nx []int
		switch op.Kind {
		case "map":
			for _, x := range want {
				nx = append(nx, mapFns[op.Arg](x))
			}
		case "filter":
			for _, x := range want {
				if filterFns[op.Arg](x) {
					nx = append(nx, x)
				}
			}
		case "limit":
			nx = want
			if op.Arg > 0 && len(nx) > op.Arg {
				nx = nx[:op.Arg]
			}
		}
		want = nx
	}
	return want
}

// minimal number of source elements that must be read to produce the output:
// computed stage by stage from the reference semantics (how many inputs of each
// stage are consumed until its output prefix is complete).
func neededFromSource(src []int, ops []Op) int {
	// need[i] = number of outputs of stage i that the consumer takes (all of them)
	// walk backwards: outputs needed from stage i -> inputs needed from stage i-1
	stageOut := make([][]int, len(ops)+1)
	stageOut[0] = src
	for i, op := range ops {
		stageOut[i+1] = listSemantics(stageOut[i], []Op{op})
	}
	need := len(stageOut[len(ops)]) + 1 // the consumer drains: one extra pull sees the end
	for i := len(ops) - 1; i >= 0; i-- {
		in := stageOut[i]
		op := ops[i]
		switch op.Kind {
		case "map":
			if need > len(in)+1 {
				need = len(in) + 1
			}
		case "limit":
			if op.Arg > 0 && need > op.Arg {
				need = op.Arg // a Limit(k) never needs more than k inputs
			}
			if need > len(in)+1 {
				need = len(in) + 1
			}
		case "filter":
			// inputs consumed until `need` outputs were produced (or all inputs + end)
			produced, consumed := 0, 0
			for consumed < len(in) && produced < need {
				if filterFns[op.Arg](in[consumed]) {
					produced++
				}
				consumed++
			}
			if produced < need {
				consumed = len(in) + 1
			}
			need = consumed
		}
	}
	return need
}

func runRaw(c RawCase) kit.Result {
	want := listSemantics(c.Src, c.Ops)
	base := &cnt{inner: iter.FromSlice(c.Src)}
	var cur iter.Iter[int] = base
	stacked := false
	prevLimit := false
	for _, op := range c.Ops {
		switch op.Kind {
		case "map":
			cur = iter.Map[int, int](cur, mapFns[op.Arg])
			prevLimit = false
		case "filter":
			cur = iter.Filter[int](cur, filterFns[op.Arg])
			prevLimit = false
		case "limit":
			cur = iter.Limit[int](cur, op.Arg)
			if prevLimit {
				stacked = true
			}
			prevLimit = true
		}
	}
	var got []int
	for cur.Next() {
		got = append(got, cur.Val())
		if len(got) > len(c.Src)+5 {
			return kit.Fail("iterator yields more values than the source has")
		}
	}
	if !reflect.DeepEqual(append([]int{}, got...), append([]int{}, want...)) {
		return kit.Fail("yielded %v, list semantics give %v", got, want)
	}
	// never read past what is yielded by more than one element: the source may be
	// pulled at most once more than the reference consumption
	if need := neededFromSource(c.Src, c.Ops); base.nexts > need+1 {
		return kit.Fail("source pulled %d times, list semantics need at most %d (+1 tolerated)", base.nexts, need)
	}
	for i := 0; i < c.Closes; i++ {
		if err := cur.Close(); err != nil {
			return kit.Fail("Close: %v", err)
		}
	}
	if base.closes != c.Closes {
		return kit.Fail("composite closed %d times, source closed %d times", c.Closes, base.closes)
	}
	cls := []string{fmt.Sprintf("depth:%d", len(c.Ops))}
	if stacked {
		cls = append(cls, "stacked-limits")
	}
	return kit.Result{NonTrivial: stacked || len(c.Ops) >= 2, Classes: cls}
}

var rawSpec = kit.Spec[RawCase]{
	Prop: "C43", Name: "raw",
	Rule:  "combinators stacked directly (only the source is instrumented), compared with list semantics, source pulls bounded by the reference consumption + 1, Close reaches the source; non-trivial = depth>=2 or two directly stacked Limits",
	Quick: 8000, Thorough: 60000,
	Gen: genRaw, Run: runRaw,
}

func TestPropRaw(t *testing.T) { kit.All(t, rawSpec) }

// ---------------------------------------------------------------------------

type rec struct {
	A int            `json:"a,omitempty"`
	B string         `json:"b,omitempty"`
	L []int          `json:"l,omitempty"`
	M map[string]int `json:"m,omitempty"`
	P *int           `json:"p,omitempty"`
}

// anyRec has an interface-typed slot, like records carrying free-form extra fields.
type anyRec struct {
	N string `json:"n"`
	V any    `json:"v"`
}

type JSONCase struct {
	Kind  string   `json:"kind"`  // struct | map | slice | any | anyrec
	Elems []string `json:"elems"` // JSON text of each element
	Limit int      `json:"limit"`
	Hold  bool     `json:"hold"` // keep all yielded values and compare at the end (aliasing)
}

func genJSON(t *rapid.T) JSONCase {
	c := JSONCase{Kind: rapid.SampledFrom([]string{"struct", "map", "slice", "any", "anyrec"}).Draw(t, "kind")}
	n := rapid.IntRange(0, 8).Draw(t, "n")
	keys := []string{"a", "b", "c"}
	for i := 0; i < n; i++ {
		var v any
		switch c.Kind {
		case "struct":
			r := map[string]any{}
			if rapid.Bool().Draw(t, "hasA") {
				r["a"] = rapid.IntRange(1, 9).Draw(t, "a")
			}
			if rapid.Bool().Draw(t, "hasB") {
				r["b"] = rapid.SampledFrom([]string{"x", "yy"}).Draw(t, "b")
			}
			if rapid.Bool().Draw(t, "hasL") {
				r["l"] = rapid.SliceOfN(rapid.IntRange(1, 9), 1, 3).Draw(t, "l")
			}
			if rapid.Bool().Draw(t, "hasM") {
				r["m"] = map[string]int{rapid.SampledFrom(keys).Draw(t, "mk"): rapid.IntRange(1, 9).Draw(t, "mv")}
			}
			if rapid.Bool().Draw(t, "hasP") {
				r["p"] = rapid.IntRange(1, 9).Draw(t, "p")
			}
			v = r
		case "map":
			m := map[string]int{}
			for _, k := range rapid.SliceOfNDistinct(rapid.SampledFrom(keys), 0, 2, rapid.ID[string]).Draw(t, "ks") {
				m[k] = rapid.IntRange(1, 9).Draw(t, "v")
			}
			v = m
		case "slice":
			v = rapid.SliceOfN(rapid.IntRange(1, 9), 0, 4).Draw(t, "s")
		case "any", "anyrec":
			// dynamically typed element: scalars, lists and objects mixing numbers,
			// strings, booleans and null
			scalar := rapid.OneOf(
				rapid.Map(rapid.IntRange(-9, 9), func(x int) any { return x }),
				rapid.Map(rapid.SampledFrom([]float64{1.5, -0.25, 1e3}), func(x float64) any { return x }),
				rapid.Map(rapid.SampledFrom([]string{"x", "7", ""}), func(x string) any { return x }),
				rapid.Map(rapid.Bool(), func(x bool) any { return x }),
				rapid.Just[any](nil),
			)
			var e any
			switch rapid.IntRange(0, 2).Draw(t, "shape") {
			case 0:
				e = scalar.Draw(t, "scalar")
			case 1:
				e = rapid.SliceOfN(scalar, 0, 3).Draw(t, "list")
			default:
				m := map[string]any{}
				for _, k := range rapid.SliceOfNDistinct(rapid.SampledFrom(keys), 0, 2, rapid.ID[string]).Draw(t, "ks") {
					m[k] = scalar.Draw(t, "mv")
				}
				e = m
			}
			if c.Kind == "anyrec" {
				e = map[string]any{"n": rapid.SampledFrom([]string{"x", "y"}).Draw(t, "n"), "v": e}
			}
			v = e
		}
		b, _ := json.Marshal(v)
		c.Elems = append(c.Elems, string(b))
	}
	c.Limit = rapid.IntRange(-1, 9).Draw(t, "limit")
	c.Hold = rapid.Bool().Draw(t, "hold")
	return c
}

func runJSONKind[T any](c JSONCase) kit.Result {
	var buf bytes.Buffer
	for _, e := range c.Elems {
		buf.WriteString(e)
		buf.WriteString("\n")
	}
	var want []T
	for _, e := range c.Elems {
		var v T
		if err := json.Unmarshal([]byte(e), &v); err != nil {
			return kit.Result{Classes: []string{"harness:undecodable"}}
		}
		want = append(want, v)
	}
	if c.Limit > 0 && len(want) > c.Limit {
		want = want[:c.Limit]
	}
	it := iter.Limit[iter.Result[T]](iter.FromReaderJSON[T](&buf), c.Limit)
	var held []T
	i := 0
	for it.Next() {
		r := it.Val()
		if r.Err != nil {
			return kit.Fail("element %d: unexpected error %v", i, r.Err)
		}
		if i >= len(want) {
			return kit.Fail("iterator yields more than %d values", len(want))
		}
		if !c.Hold {
			if !reflect.DeepEqual(r.Val, want[i]) {
				return kit.Fail("element %d: got %+v, the element's own JSON decodes to %+v", i, r.Val, want[i])
			}
		} else {
			held = append(held, r.Val)
		}
		i++
	}
	if i != len(want) {
		return kit.Fail("iterator yielded %d values, want %d", i, len(want))
	}
	for j := range held {
		if !reflect.DeepEqual(held[j], want[j]) {
			return kit.Fail("element %d (inspected after the iteration): got %+v, the element's own JSON decodes to %+v", j, held[j], want[j])
		}
	}
	it.Close()
	distinct := map[string]bool{}
	for _, e := range c.Elems {
		distinct[e] = true
	}
	return kit.Result{NonTrivial: len(distinct) >= 2, Classes: []string{"kind:" + c.Kind}}
}

func runJSON(c JSONCase) kit.Result {
	switch c.Kind {
	case "struct":
		return runJSONKind[rec](c)
	case "map":
		return runJSONKind[map[string]int](c)
	case "any":
		return runJSONKind[any](c)
	case "anyrec":
		return runJSONKind[anyRec](c)
	default:
		return runJSONKind[[]int](c)
	}
}

var jsonSpec = kit.Spec[JSONCase]{
	Prop: "C43", Name: "json",
	Rule:  "JSON iterator over a stream of structured elements (structs with omitted fields, maps, slices, dynamically typed values decoded into any or into a struct with an any-typed field) under an optional Limit; every yielded value equals an independent decode of that element's own text, also when values are kept and inspected after the iteration; non-trivial = at least two different elements",
	Quick: 6000, Thorough: 40000,
	Gen: genJSON, Run: runJSON,
}

func TestPropJSON(t *testing.T) { kit.All(t, jsonSpec) }
