package c43

import (
	"bytes"
	"fmt"
	"io"
	"strconv"
	"testing"

	"github.com/ipfs/boxo/routing/http/types/iter"
	"pgregory.net/rapid"
	"verif/kit"
)

func TestMain(m *testing.M) { kit.Main(m) }

type Op struct {
	Kind string `json:"kind"` // map | filter | limit
	Arg  int    `json:"arg"`
}

type Case struct {
	Src       []int  `json:"src"`
	SrcKind   string `json:"src_kind"` // slice | json
	Ops       []Op   `json:"ops"`
	ExtraNext int    `json:"extra_next"`
	Closes    int    `json:"closes"`
	// ReadAll: after Pre manual Next calls the rest is drained with iter.ReadAll; with Bare
	// (and no stages over a slice source) ReadAll gets the slice iterator itself, unwrapped
	ReadAll bool `json:"read_all,omitempty"`
	Pre     int  `json:"pre,omitempty"`
	Bare    bool `json:"bare,omitempty"`
}

var mapFns = []func(int) int{
	func(x int) int { return x + 1 },
	func(x int) int { return x * 2 },
	func(x int) int { return -x },
	func(x int) int { return x % 7 },
}

var filterFns = []func(int) bool{
	func(x int) bool { return x%2 == 0 },
	func(x int) bool { return x > 0 },
	func(x int) bool { return x%3 != 0 },
	func(x int) bool { return false },
	func(x int) bool { return true },
}

// counting wrapper around any stage
type cnt struct {
	inner  iter.Iter[int]
	nexts  int
	trues  int
	closes int
	// after the first false, every Next must stay false
	exhausted      bool
	trueAfterFalse bool
}

func (c *cnt) Next() bool {
	c.nexts++
	ok := c.inner.Next()
	if !ok {
		c.exhausted = true
	} else {
		c.trues++
		if c.exhausted {
			c.trueAfterFalse = true
		}
	}
	return ok
}
func (c *cnt) Val() int     { return c.inner.Val() }
func (c *cnt) Close() error { c.closes++; return c.inner.Close() }

type closeCounter struct {
	io.Reader
	closes int
}

func (c *closeCounter) Close() error { c.closes++; return nil }

func gen(t *rapid.T) Case {
	c := Case{}
	c.Src = rapid.SliceOfN(rapid.IntRange(-20, 20), 0, 50).Draw(t, "src")
	c.SrcKind = rapid.SampledFrom([]string{"slice", "json"}).Draw(t, "kind")
	n := rapid.SampledFrom([]int{0, 1, 2, 2, 3, 3, 4, 4}).Draw(t, "depth")
	for i := 0; i < n; i++ {
		k := rapid.SampledFrom([]string{"map", "filter", "limit", "limit"}).Draw(t, "op")
		var a int
		switch k {
		case "map":
			a = rapid.IntRange(0, len(mapFns)-1).Draw(t, "f")
		case "filter":
			a = rapid.IntRange(0, len(filterFns)-1).Draw(t, "p")
		case "limit":
			a = rapid.OneOf(rapid.IntRange(-1, 60), rapid.IntRange(0, len(c.Src)+1)).Draw(t, "k")
		}
		c.Ops = append(c.Ops, Op{k, a})
	}
	c.ExtraNext = rapid.IntRange(0, 3).Draw(t, "extra")
	c.Closes = rapid.IntRange(1, 2).Draw(t, "closes")
	if rapid.IntRange(0, 2).Draw(t, "readall") == 0 {
		c.ReadAll = true
		c.Pre = rapid.IntRange(0, 3).Draw(t, "pre")
		c.Bare = rapid.Bool().Draw(t, "bare")
	}
	return c
}

func run(c Case) kit.Result {
	// reference list semantics
	want := append([]int(nil), c.Src...)
	for _, op := range c.Ops {
		var nx []int
		switch op.Kind {
		case "map":
			for _, x := range want {
				nx = append(nx, mapFns[op.Arg](x))
			}
		case "filter":
			for _, x := range want {
				if filterFns[op.Arg](x) {
					nx = append(nx, x)
				}
			}
		case "limit":
			nx = want
			if op.Arg > 0 && len(nx) > op.Arg {
				nx = nx[:op.Arg]
			}
		}
		want = nx
	}

	// build the real pipeline
	var src iter.Iter[int]
	var rc *closeCounter
	switch c.SrcKind {
	case "slice":
		src = iter.FromSlice(c.Src)
	case "json":
		var buf bytes.Buffer
		for i, x := range c.Src {
			buf.WriteString(strconv.Itoa(x))
			if i%2 == 0 {
				buf.WriteString("\n")
			} else {
				buf.WriteString(" ")
			}
		}
		rc = &closeCounter{Reader: &buf}
		ji := iter.FromReaderJSON[int](rc)
		src = iter.Map[iter.Result[int], int](ji, func(r iter.Result[int]) int {
			if r.Err != nil {
				panic(fmt.Sprintf("json source error: %v", r.Err))
			}
			return r.Val
		})
	}
	base := &cnt{inner: src}
	stages := []*cnt{base}
	var cur iter.Iter[int] = base
	type lim struct {
		k     int
		inner *cnt
		outer *cnt
	}
	var lims []lim
	for _, op := range c.Ops {
		inner := stages[len(stages)-1]
		var st iter.Iter[int]
		switch op.Kind {
		case "map":
			st = iter.Map[int, int](cur, mapFns[op.Arg])
		case "filter":
			st = iter.Filter[int](cur, filterFns[op.Arg])
		case "limit":
			st = iter.Limit[int](cur, op.Arg)
		}
		w := &cnt{inner: st}
		if op.Kind == "limit" {
			lims = append(lims, lim{op.Arg, inner, w})
		}
		stages = append(stages, w)
		cur = w
	}
	var got []int
	wantCloses := c.Closes
	if c.ReadAll {
		// prefix by hand, rest through ReadAll: together they must be the list
		var it iter.Iter[int] = cur
		if c.Bare && len(c.Ops) == 0 && c.SrcKind == "slice" {
			it = src
		} else {
			wantCloses++ // ReadAll closes the iterator it drained
		}
		for i := 0; i < c.Pre && it.Next(); i++ {
			got = append(got, it.Val())
		}
		got = append(got, iter.ReadAll[int](it)...)
		if len(got) > len(c.Src)+5 {
			return kit.Fail("iterator yields more values than the source has")
		}
	}
	for cur.Next() {
		got = append(got, cur.Val())
		if len(got) > len(c.Src)+5 {
			return kit.Fail("iterator yields more values than the source has")
		}
	}
	for i := 0; i < c.ExtraNext; i++ {
		if cur.Next() {
			return kit.Fail("Next returned true after exhaustion (extra call %d)", i)
		}
	}
	if len(got) != len(want) {
		return kit.Fail("yielded %v, list semantics give %v", got, want)
	}
	for i := range got {
		if got[i] != want[i] {
			return kit.Fail("yielded %v, list semantics give %v", got, want)
		}
	}
	for i, l := range lims {
		if l.k > 0 {
			// a Limit(k) never obtains more than k values from its source and never pulls
			// more often than it was itself asked to advance
			if l.inner.trues > l.k {
				return kit.Fail("limit #%d (k=%d) obtained %d values from its source", i, l.k, l.inner.trues)
			}
			if l.inner.nexts > l.outer.nexts {
				return kit.Fail("limit #%d (k=%d) pulled its source %d times for %d Next calls", i, l.k, l.inner.nexts, l.outer.nexts)
			}
		}
	}
	for i, s := range stages {
		if s.trueAfterFalse {
			return kit.Fail("stage %d returned true from Next after it had returned false", i)
		}
	}
	for i := 0; i < c.Closes; i++ {
		if err := cur.Close(); err != nil {
			return kit.Fail("Close: %v", err)
		}
	}
	if base.closes != wantCloses {
		return kit.Fail("composite closed %d times, source closed %d times", wantCloses, base.closes)
	}
	if rc != nil && rc.closes != wantCloses {
		return kit.Fail("composite closed %d times, underlying reader closed %d times", wantCloses, rc.closes)
	}
	nt := false
	for i, op := range c.Ops {
		_ = i
		if op.Kind == "limit" && op.Arg > 0 && op.Arg < len(c.Src) && len(c.Ops) >= 2 {
			nt = true
		}
	}
	cls := []string{"src:" + c.SrcKind, fmt.Sprintf("depth:%d", len(c.Ops))}
	if c.ReadAll {
		cls = append(cls, "drain:readall")
		if c.Pre > 0 && len(c.Src) > 0 {
			cls = append(cls, "readall-after-partial-consumption")
			nt = nt || len(c.Src) > 1
		}
	}
	return kit.Result{NonTrivial: nt, Classes: cls}
}

var spec = kit.Spec[Case]{
	Prop: "C43", Name: "main",
	Rule:  "random int sequence (<=50) through a random composition (depth<=4) of Map/Filter/Limit over a slice or JSON source, compared with list semantics; drained by a Next loop or by 0-3 manual Next calls followed by iter.ReadAll (also on the bare slice iterator); non-trivial = depth>=2 and a Limit 0<k<len(source), or ReadAll after partial consumption",
	Quick: 10000, Thorough: 60000,
	Gen: gen, Run: run,
}

func TestProp(t *testing.T) { kit.All(t, spec) }
