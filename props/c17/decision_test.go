package c17

// C17 sub-check "decision": the size a basic directory USES for its sharding decision.
//
// The "main" sub-check reads the tracked estimate after every operation. The statement,
// however, speaks of "the size a basic directory uses for its sharding decision", and that
// size is a projection (tracked estimate - replaced link + new link) that exists only inside
// the decision. It is observable through the public API: a DynamicDirectory in
// SizeEstimationBlock mode converts to a HAMT "when estimatedSize > HAMTShardingSize; a
// directory exactly at the threshold stays basic" (package doc of HAMTShardingSize), and the
// per-directory threshold is set with Directory.SetHAMTShardingSize (the way mfs hands the
// setting to a directory). So, with the threshold placed at / just below / just above the
// exact serialized length of the block that results from an AddChild, the directory must be
// sharded afterwards  <=>  that exact length > threshold.
//
// The exact length is computed independently of the directory code: a reference basic
// directory node holding the model's entries is serialized with merkledag's dag-pb encoder.
// Only Basic->HAMT decisions are judged (the statement is about the basic directory); whenever
// the directory has become a HAMT as expected, the history continues on a basic directory
// loaded from the reference node (NewDirectoryFromNode + inherited settings, as mfs does), so
// the HAMT->basic path (property C16 and its known findings) never takes part.

import (
	"context"
	"errors"
	"fmt"
	"math"
	"os"
	"sort"
	"testing"
	"time"

	mdag "github.com/ipfs/boxo/ipld/merkledag"
	mdtest "github.com/ipfs/boxo/ipld/merkledag/test"
	unixfs "github.com/ipfs/boxo/ipld/unixfs"
	uio "github.com/ipfs/boxo/ipld/unixfs/io"
	cid "github.com/ipfs/go-cid"
	ipld "github.com/ipfs/go-ipld-format"
	mh "github.com/multiformats/go-multihash"
	"pgregory.net/rapid"
	"verif/kit"
)

type DOp struct {
	Kind  string        `json:"kind"` // add | remove | reload
	Name  int           `json:"name"` // index into Names; -1 = a name that is never added (remove only)
	Child kit.ChildSpec `json:"child"`
	// SetThr (add only): before the AddChild, set the per-directory threshold to
	// (exact serialized length of the block resulting from this add) + Delta.
	SetThr bool `json:"set_thr"`
	Delta  int  `json:"delta"`
	// Oversize (add only): as in [main] - a child the dag-pb node refuses (cumulative size over
	// 2^63-1). The threshold is moved well above the directory first, so no decision is judged
	// on this call; the following boundary decisions show whether the attempt left a trace.
	Oversize bool `json:"oversize,omitempty"`
}

type DCase struct {
	Names    []string `json:"names"`
	Perm     uint32   `json:"perm"` // 0..07777
	HasMtime bool     `json:"has_mtime"`
	Sec      int64    `json:"sec"`
	Nsec     int64    `json:"nsec"`
	CidV1    bool     `json:"cid_v1"`
	// GlobalBlock: as in [main] - the package-global HAMTSizeEstimation is SizeEstimationBlock
	// while the case runs, so loaded directories are in block mode from construction on.
	GlobalBlock bool  `json:"global_block,omitempty"`
	Ops         []DOp `json:"ops"`
}

// ---------------------------------------------------------------------------
// generator

func genDelta(t *rapid.T) int {
	switch rapid.IntRange(0, 7).Draw(t, "dclass") {
	case 0, 1:
		return -1 // block one byte above the threshold: must shard
	case 2, 3:
		return 0 // block exactly at the threshold: must stay basic
	case 4:
		return 1
	default:
		return rapid.IntRange(-12, 12).Draw(t, "delta") // a replaced Tsize varint moves the size by up to 9 (+1 length prefix) bytes
	}
}

// genDecisionChild: targets as in [main], but only CIDs the DAG service accepts (the HAMT the
// directory turns into reads entries back through the block service, which refuses digests
// under 20 bytes and identity digests over 128 bytes: verifcid.DefaultAllowlist).
func genDecisionChild(t *rapid.T) kit.ChildSpec {
	var p kit.PrefixSpec
	if rapid.IntRange(0, 4).Draw(t, "trunc") == 0 {
		l := rapid.SampledFrom([]int{20, 28, 31}).Draw(t, "mhlen")
		p = kit.PrefixSpec{Version: 1, Codec: rapid.SampledFrom([]uint64{cid.Raw, cid.DagProtobuf}).Draw(t, "codec"), MhType: mh.SHA2_256, MhLength: l}
	} else {
		p = kit.Prefixes(false).Draw(t, "prefix")
	}
	return kit.ChildSpec{Prefix: p, Tsize: genTsize(t), Salt: rapid.Uint32Range(0, 1000).Draw(t, "salt")}
}

func genDecision(t *rapid.T) DCase {
	c := DCase{}
	nn := rapid.IntRange(1, 6).Draw(t, "nnames")
	seen := map[string]bool{}
	for i := 0; i < nn; i++ {
		s := genName(t, i)
		if s == "" || seen[s] {
			s = fmt.Sprintf("%d", i) + s
		}
		seen[s] = true
		c.Names = append(c.Names, s)
	}
	switch rapid.IntRange(0, 3).Draw(t, "permclass") {
	case 0:
		c.Perm = 0
	case 1:
		c.Perm = rapid.SampledFrom([]uint32{0o644, 0o755, 1, 0o7777, 0o4000, 0o177, 0o200}).Draw(t, "perm")
	default:
		c.Perm = rapid.Uint32Range(0, 0o7777).Draw(t, "perm")
	}
	c.HasMtime = rapid.Bool().Draw(t, "hasmtime")
	if c.HasMtime {
		switch rapid.IntRange(0, 2).Draw(t, "secclass") {
		case 0:
			c.Sec = rapid.SampledFrom([]int64{0, 1, -1, 127, 128, 1<<31 - 1, 1 << 35, -62135596800, 1 << 55, -(1 << 55)}).Draw(t, "sec")
		case 1:
			c.Sec = rapid.Int64Range(-(1 << 55), 1<<55).Draw(t, "sec")
		default:
			c.Sec = rapid.Int64Range(1400000000, 2000000000).Draw(t, "sec")
		}
		if rapid.Bool().Draw(t, "nanos") {
			c.Nsec = rapid.Int64Range(1, 999999999).Draw(t, "nsec")
		}
	}
	c.CidV1 = rapid.Bool().Draw(t, "cidv1")
	c.GlobalBlock = rapid.Bool().Draw(t, "globalblock")

	nops := rapid.IntRange(2, kit.Scale(16, 30)).Draw(t, "nops")
	present := map[int]bool{}
	haveList := func() []int {
		var have []int
		for j := range c.Names {
			if present[j] {
				have = append(have, j)
			}
		}
		return have
	}
	for i := 0; i < nops; i++ {
		k := rapid.IntRange(0, 11).Draw(t, "opk")
		have := haveList()
		switch {
		case k <= 7 || len(have) == 0: // add: new entry or replacement, as the model state decides
			var idx int
			if len(have) > 0 && rapid.IntRange(0, 2).Draw(t, "replace") != 0 {
				idx = rapid.SampledFrom(have).Draw(t, "rname")
			} else {
				idx = rapid.IntRange(0, len(c.Names)-1).Draw(t, "name")
			}
			op := DOp{Kind: "add", Name: idx, Child: genDecisionChild(t)}
			if rapid.IntRange(0, 9).Draw(t, "oversize") == 0 {
				op.Oversize = true
				c.Ops = append(c.Ops, op)
				delete(present, idx) // refused; a refused replacement has already dropped the old entry
				continue
			}
			op.SetThr = rapid.IntRange(0, 3).Draw(t, "setthr") != 0
			if op.SetThr {
				op.Delta = genDelta(t)
			}
			c.Ops = append(c.Ops, op)
			present[idx] = true
		case k <= 9: // remove, mostly of a present name
			idx := rapid.IntRange(-1, len(c.Names)-1).Draw(t, "name")
			if len(have) > 0 && rapid.IntRange(0, 3).Draw(t, "present") != 0 {
				idx = rapid.SampledFrom(have).Draw(t, "pname")
			}
			c.Ops = append(c.Ops, DOp{Kind: "remove", Name: idx})
			if idx >= 0 {
				delete(present, idx)
			}
		default:
			c.Ops = append(c.Ops, DOp{Kind: "reload"})
		}
	}
	return c
}

// ---------------------------------------------------------------------------
// oracle

type dent struct {
	c     cid.Cid
	tsize uint64
}

// refDirNode builds, without any directory code, the basic directory node that holds exactly
// the model's entries; its serialization is "the directory block that would be serialized".
func refDirNode(c DCase, mode os.FileMode, mtime time.Time, model map[int]dent) *mdag.ProtoNode {
	var n *mdag.ProtoNode
	if mode != 0 || !mtime.IsZero() {
		n = unixfs.EmptyDirNodeWithStat(mode, mtime)
	} else {
		n = unixfs.EmptyDirNode()
	}
	if c.CidV1 {
		n.SetCidBuilder(cid.V1Builder{Codec: cid.DagProtobuf, MhType: mh.SHA2_256})
	}
	idx := make([]int, 0, len(model))
	for i := range model {
		idx = append(idx, i)
	}
	sort.Ints(idx)
	for _, i := range idx {
		e := model[i]
		if err := n.AddRawLink(c.Names[i], &ipld.Link{Cid: e.c, Size: e.tsize}); err != nil {
			panic(err)
		}
	}
	return n
}

func runDecision(c DCase) kit.Result {
	if len(c.Names) == 0 || c.Perm > 0o7777 || c.Nsec < 0 || c.Nsec > 999999999 || c.Sec > 1<<56 || c.Sec < -(1<<56) {
		return kit.Result{}
	}
	seenName := map[string]bool{}
	for _, s := range c.Names {
		if s == "" || len(s) > 320 || seenName[s] {
			return kit.Result{}
		}
		seenName[s] = true
	}
	ctx := context.Background()
	ds := mdtest.Mock()
	mode := permsToFileMode(c.Perm)
	var mtime time.Time
	if c.HasMtime {
		mtime = time.Unix(c.Sec, c.Nsec)
	}
	if c.GlobalBlock {
		// cases run one at a time in this process; restored before the next case
		defer func(old uio.SizeEstimationMode) { uio.HAMTSizeEstimation = old }(uio.HAMTSizeEstimation)
		uio.HAMTSizeEstimation = uio.SizeEstimationBlock
	}
	opts := []uio.DirectoryOption{uio.WithSizeEstimationMode(uio.SizeEstimationBlock), uio.WithStat(mode, mtime)}
	if c.CidV1 {
		opts = append(opts, uio.WithCidBuilder(cid.V1Builder{Codec: cid.DagProtobuf, MhType: mh.SHA2_256}))
	}
	dir, err := uio.NewDirectory(ds, opts...)
	if err != nil {
		return kit.Fail("NewDirectory: %v", err)
	}
	// thr == 0: no per-directory threshold, the package default (256 KiB, far above any
	// directory of this check) applies.
	thr := 0
	effective := func() int {
		if thr > 0 {
			return thr
		}
		return uio.HAMTShardingSize
	}
	isHAMT := func() bool {
		_, ok := dir.(*uio.DynamicDirectory).Directory.(*uio.HAMTDirectory)
		return ok
	}
	// load a basic directory from a node the way mfs does: NewDirectoryFromNode, then hand the
	// parent's settings to it
	load := func(n *mdag.ProtoNode) error {
		d, err := uio.NewDirectoryFromNode(ds, n)
		if err != nil {
			return err
		}
		d.SetSizeEstimationMode(uio.SizeEstimationBlock)
		if thr > 0 {
			d.SetHAMTShardingSize(thr)
		}
		if _, ok := d.(*uio.DynamicDirectory).Directory.(*uio.BasicDirectory); !ok {
			return fmt.Errorf("a basic directory node was loaded as %T", d.(*uio.DynamicDirectory).Directory)
		}
		dir = d
		return nil
	}

	model := map[int]dent{}
	// basicExact: the directory is basic; its block and its tracked estimate must be the model's size
	basicExact := func(when string, exact int) *kit.Result {
		nd, err := dir.GetNode()
		if err != nil {
			r := kit.Fail("%s: GetNode: %v", when, err)
			return &r
		}
		if got := len(nd.RawData()); got != exact {
			r := kit.Fail("%s: basic directory serializes to %d bytes, a directory node with the same %d entries to %d", when, got, len(model), exact)
			return &r
		}
		bd := dir.(*uio.DynamicDirectory).Directory.(*uio.BasicDirectory)
		if est := bd.VerifEstimatedSize(); est != exact {
			r := kit.Fail("%s: estimated size %d, serialized block is %d bytes", when, est, exact)
			return &r
		}
		return nil
	}

	const missing = "never-added-name"
	var (
		boundary, boundaryRepl, boundaryReplClass int // decisions taken with |exact-threshold| <= 1
		sharded, stayedAt, afterRemove            int
		removedSinceDecision                      bool
		rejected, boundaryAfterReject, metaLoads  int
	)
	for i, op := range c.Ops {
		when := fmt.Sprintf("op %d (%s)", i, op.Kind)
		switch op.Kind {
		case "add":
			if op.Name < 0 || op.Name >= len(c.Names) {
				return kit.Result{}
			}
			if op.Oversize {
				big, ok := oversizeChild(op.Child)
				if !ok {
					return kit.Result{}
				}
				// no decision is judged on this call: threshold far above the block even with this link
				thr = len(refDirNode(c, mode, mtime, model).RawData()) + 1000
				dir.SetHAMTShardingSize(thr)
				err := dir.AddChild(ctx, c.Names[op.Name], big)
				if isHAMT() {
					return kit.Fail("%s: directory became a HAMT although its block, even with the offered link (< 450 bytes), stays over 500 bytes below the threshold %d", when, thr)
				}
				// the model follows the directory (what a refused add / replacement leaves behind
				// is not this property's business); sizes must then be exact for what is there
				nd, gerr := dir.GetNode()
				if gerr != nil {
					return kit.Fail("%s: GetNode: %v", when, gerr)
				}
				if l, lerr := nd.(*mdag.ProtoNode).GetNodeLink(c.Names[op.Name]); lerr == nil {
					if l.Size > math.MaxInt64 {
						return kit.Result{}
					}
					model[op.Name] = dent{l.Cid, l.Size}
				} else {
					delete(model, op.Name)
				}
				if err != nil {
					rejected++
				}
				if r := basicExact(when, len(refDirNode(c, mode, mtime, model).RawData())); r != nil {
					return *r
				}
				break
			}
			child, ts := kit.MakeChild(op.Child)
			old, had := model[op.Name]
			model[op.Name] = dent{child.Cid(), ts}
			ref := refDirNode(c, mode, mtime, model)
			exact := len(ref.RawData())
			if op.SetThr {
				thr = exact + op.Delta
				if thr < 1 {
					thr = 1
				}
				dir.SetHAMTShardingSize(thr)
			}
			if err := dir.AddChild(ctx, c.Names[op.Name], child); err != nil {
				return kit.Fail("%s: AddChild(%q): %v", when, c.Names[op.Name], err)
			}
			want, got := exact > effective(), isHAMT()
			if got != want {
				what := "new entry"
				if had {
					what = fmt.Sprintf("replacement, Tsize %d (%d-byte varint) -> %d (%d-byte varint), target CID %d -> %d bytes",
						old.tsize, varintClass(old.tsize), ts, varintClass(ts), len(old.c.Bytes()), len(child.Cid().Bytes()))
				}
				return kit.Fail("%s: %s; the block holding the resulting %d entries serializes to %d bytes, threshold %d: sharded=%v, want %v (shard iff exact size > threshold)",
					when, what, len(model), exact, effective(), got, want)
			}
			if d := exact - effective(); d >= -1 && d <= 1 {
				boundary++
				if had {
					boundaryRepl++
					if varintClass(old.tsize) != varintClass(ts) {
						boundaryReplClass++
					}
				}
				if removedSinceDecision {
					afterRemove++
				}
				if rejected > 0 {
					boundaryAfterReject++
				}
				if d == 0 {
					stayedAt++
				}
			}
			removedSinceDecision = false
			if got {
				sharded++
				// judged; continue the history on a basic directory holding the same entries
				if err := load(ref); err != nil {
					return kit.Fail("%s: reload of the reference node: %v", when, err)
				}
				if c.GlobalBlock && (mode != 0 || c.HasMtime) {
					metaLoads++
				}
			}
			if r := basicExact(when, exact); r != nil {
				return *r
			}
		case "remove":
			name := missing
			if op.Name >= 0 {
				if op.Name >= len(c.Names) {
					return kit.Result{}
				}
				name = c.Names[op.Name]
			}
			_, had := model[op.Name]
			err := dir.RemoveChild(ctx, name)
			if had && err != nil {
				return kit.Fail("%s: RemoveChild(%q): %v", when, name, err)
			}
			if !had && !errors.Is(err, os.ErrNotExist) {
				return kit.Fail("%s: RemoveChild of a missing name returned %v", when, err)
			}
			if had {
				delete(model, op.Name)
				removedSinceDecision = true
			}
			if isHAMT() {
				return kit.Fail("%s: removal turned a basic directory into a HAMT", when)
			}
			if r := basicExact(when, len(refDirNode(c, mode, mtime, model).RawData())); r != nil {
				return *r
			}
		case "reload":
			nd, err := dir.GetNode()
			if err != nil {
				return kit.Fail("%s: GetNode: %v", when, err)
			}
			pn, ok := nd.(*mdag.ProtoNode)
			if !ok {
				return kit.Fail("%s: basic directory node is %T", when, nd)
			}
			if err := load(pn); err != nil {
				return kit.Fail("%s: %v", when, err)
			}
			if c.GlobalBlock && (mode != 0 || c.HasMtime) {
				metaLoads++
			}
			if r := basicExact(when, len(refDirNode(c, mode, mtime, model).RawData())); r != nil {
				return *r
			}
		default:
			return kit.Result{}
		}
	}

	var cls []string
	if boundary > 0 {
		cls = append(cls, "decision-within-1-of-threshold")
	}
	if boundaryRepl > 0 {
		cls = append(cls, "boundary-decision-on-replacement")
	}
	if boundaryReplClass > 0 {
		cls = append(cls, "boundary-decision-on-replacement-changing-tsize-class")
	}
	if afterRemove > 0 {
		cls = append(cls, "boundary-decision-after-removal")
	}
	if sharded > 0 {
		cls = append(cls, "sharded")
	}
	if stayedAt > 0 {
		cls = append(cls, "stayed-basic-exactly-at-threshold")
	}
	if c.HasMtime && (c.Sec < 0 || c.Nsec != 0) {
		cls = append(cls, "mtime:negative-or-subsecond")
	}
	if c.GlobalBlock {
		cls = append(cls, "block-mode-from-global")
	}
	if metaLoads > 0 {
		cls = append(cls, "load-with-metadata-under-global-block-mode")
	}
	if rejected > 0 {
		cls = append(cls, "add-rejected-by-node(tsize-overflow)")
	}
	if boundaryAfterReject > 0 {
		cls = append(cls, "boundary-decision-after-rejected-add")
	}
	return kit.Result{NonTrivial: boundaryReplClass > 0 || afterRemove > 0 || boundaryAfterReject > 0, Classes: cls}
}

var decisionSpec = kit.Spec[DCase]{
	Prop: "C17", Name: "decision",
	Rule:  "DynamicDirectory in block-size mode holding a BasicDirectory, mode 0..07777, mtime over sign/nanosecond classes, 1-6 non-empty names up to 300 bytes, targets and Tsize as in [main], 2-16 (thorough 30) ops add/replace/remove/reload/add refused by the dag-pb node (threshold moved away first); in half the cases the package-global HAMTSizeEstimation is block mode too; before 3 of 4 adds the per-directory threshold (SetHAMTShardingSize) is placed at exact+d, d mostly in {-1,0,+1} else -12..12, where exact = length of an independently serialized directory node holding the resulting entries; after every AddChild: became HAMT <=> exact > threshold (then the history continues on a basic directory loaded from the reference node), and while basic len(RawData()) == estimate == exact; non-trivial = a decision within 1 byte of the threshold was taken for a replacement that changes the Tsize varint class, or for an add following a removal or a rejected add",
	Quick: 5000, Thorough: 40000,
	Gen: genDecision, Run: runDecision,
}

func TestPropDecision(t *testing.T) { kit.All(t, decisionSpec) }
