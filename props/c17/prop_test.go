package c17

// C17 Block-size estimation equals the exact serialized directory size (hook H1).
//
// A BasicDirectory in SizeEstimationBlock mode is driven through generated adds, replacements,
// removals (present / missing), refused adds (maxLinks; children the dag-pb node rejects because
// their cumulative size exceeds 2^63-1) and reloads from its node, with block mode selected per
// instance or through the package-global HAMTSizeEstimation; after
// construction and after every step the tracked estimate (read through the verif-tagged bridge
// BasicDirectory.VerifEstimatedSize) must equal len(GetNode().RawData()).
//
// The projected size used inside the Basic->HAMT decision itself (it never reaches the tracked
// field) is checked by the sub-check "decision" in decision_test.go.

import (
	"context"
	"errors"
	"fmt"
	"math"
	"os"
	"strings"
	"testing"
	"time"

	mdag "github.com/ipfs/boxo/ipld/merkledag"
	mdtest "github.com/ipfs/boxo/ipld/merkledag/test"
	uio "github.com/ipfs/boxo/ipld/unixfs/io"
	cid "github.com/ipfs/go-cid"
	ipld "github.com/ipfs/go-ipld-format"
	mh "github.com/multiformats/go-multihash"
	"pgregory.net/rapid"
	"verif/kit"
)

func TestMain(m *testing.M) { kit.Main(m) }

type Op struct {
	Kind  string        `json:"kind"` // add | remove | reload
	Name  int           `json:"name"` // index into Names; -1 = a name that is never added
	Child kit.ChildSpec `json:"child"`
	// Oversize (add only): the child is a legal dag-pb node whose cumulative Size() exceeds
	// 2^63-1 (one link with Tsize close to MaxInt64 plus its own bytes), so the directory's
	// dag-pb node refuses the link ("Tsize is too large"): an add attempt that fails.
	Oversize bool `json:"oversize,omitempty"`
	// NoInherit (reload only, honoured only with Case.GlobalBlock): the loaded directory is used
	// as loaded, without the SetSizeEstimationMode call (the global already says block mode).
	NoInherit bool `json:"no_inherit,omitempty"`
}

type Case struct {
	Names []string `json:"names"`
	// Perm: unix permission bits 0..07777. ModeClass 0: exactly these bits (the statement's
	// domain). 1: os.ModeDir with no permission bits, 2: os.ModeDir|perm - both outside the stated
	// domain 0..07777, executed and counted but not asserted.
	Perm      uint32 `json:"perm"`
	ModeClass int    `json:"mode_class"`
	HasMtime  bool   `json:"has_mtime"`
	Sec       int64  `json:"sec"`
	Nsec      int64  `json:"nsec"`
	CidV1     bool   `json:"cid_v1"`    // CID builder of the directory itself
	MaxLinks  int    `json:"max_links"` // 0 = unlimited
	Dynamic   bool   `json:"dynamic"`   // drive the BasicDirectory through a DynamicDirectory wrapper
	// GlobalBlock: block-size estimation is selected the way an application does it at start-up
	// (package variable HAMTSizeEstimation = SizeEstimationBlock, e.g. UnixFSProfile.ApplyGlobals)
	// for the duration of the case, so directories loaded from a node are in block mode from
	// the moment they are constructed. NoModeOpt (only with GlobalBlock): the directory is
	// created without the per-instance WithSizeEstimationMode option.
	GlobalBlock bool `json:"global_block,omitempty"`
	NoModeOpt   bool `json:"no_mode_opt,omitempty"`
	Ops         []Op `json:"ops"`
}

func permsToFileMode(p uint32) os.FileMode {
	m := os.FileMode(p & 0o777)
	if p&0o4000 != 0 {
		m |= os.ModeSetuid
	}
	if p&0o2000 != 0 {
		m |= os.ModeSetgid
	}
	if p&0o1000 != 0 {
		m |= os.ModeSticky
	}
	return m
}

// ---------------------------------------------------------------------------
// generator

func genName(t *rapid.T, i int) string {
	var n int
	switch rapid.IntRange(0, 7).Draw(t, "nclass") {
	case 0:
		n = rapid.IntRange(1, 3).Draw(t, "n")
	case 1:
		n = kit.Around(127, 1, 300).Draw(t, "n") // name length varint 1 -> 2 bytes
	case 2:
		n = rapid.IntRange(40, 95).Draw(t, "n") // link message length around 127/128
	case 3:
		n = rapid.IntRange(280, 300).Draw(t, "n")
	case 4:
		n = 0 // empty name (only the first one stays empty, see below)
	default:
		n = rapid.IntRange(1, 300).Draw(t, "n")
	}
	if n == 0 {
		return ""
	}
	tag := fmt.Sprintf("%d", i)
	fill := rapid.SampledFrom([]string{"a", "Z", "_", " ", "%", "é", "日"}).Draw(t, "fill")
	s := tag + strings.Repeat(fill, n)
	// cut to n bytes without splitting the tag; multi-byte fillers may be cut mid-rune: names
	// are byte strings for dag-pb, and MFS-level validation is not part of this property, but
	// stay with valid UTF-8 anyway
	for len(s) > n && len(s) > len(tag) {
		s = s[:len(s)-len(fill)]
	}
	if len(s) < len(tag) {
		s = tag
	}
	return s
}

var tsizeBounds = []uint64{0, 1, 1 << 7, 1 << 14, 1 << 21, 1 << 28, 1 << 35, 1 << 42, 1 << 49, 1 << 56, 1<<63 - 1}

func genTsize(t *rapid.T) uint64 {
	k := rapid.IntRange(0, 9).Draw(t, "tclass") // varint length class: 0 -> value 0, k -> k bytes
	if k == 0 {
		return 0
	}
	lo, hi := tsizeBounds[k], tsizeBounds[k+1]-1
	if k == 9 {
		hi = 1<<63 - 1
	}
	switch rapid.IntRange(0, 3).Draw(t, "tpos") {
	case 0:
		return lo
	case 1:
		return hi
	default:
		return rapid.Uint64Range(lo, hi).Draw(t, "tsize")
	}
}

func genPrefix(t *rapid.T) kit.PrefixSpec {
	if rapid.IntRange(0, 4).Draw(t, "trunc") == 0 {
		// truncated digests: various hash lengths
		l := rapid.SampledFrom([]int{4, 16, 20, 28, 31}).Draw(t, "mhlen")
		return kit.PrefixSpec{Version: 1, Codec: rapid.SampledFrom([]uint64{cid.Raw, cid.DagProtobuf}).Draw(t, "codec"), MhType: mh.SHA2_256, MhLength: l}
	}
	return kit.Prefixes(true).Draw(t, "prefix")
}

func genChild(t *rapid.T) kit.ChildSpec {
	return kit.ChildSpec{Prefix: genPrefix(t), Tsize: genTsize(t), Salt: rapid.Uint32Range(0, 1000).Draw(t, "salt")}
}

func gen(t *rapid.T) Case {
	c := Case{}
	nn := rapid.IntRange(1, 10).Draw(t, "nnames")
	seen := map[string]bool{}
	for i := 0; i < nn; i++ {
		s := genName(t, i)
		if seen[s] {
			s = fmt.Sprintf("%d", i) + s
		}
		seen[s] = true
		c.Names = append(c.Names, s)
	}
	switch rapid.IntRange(0, 9).Draw(t, "permclass") {
	case 0, 1:
		c.Perm = 0
	case 2:
		c.Perm = rapid.SampledFrom([]uint32{0o644, 0o755, 0o777, 1, 0o7777, 0o4000, 0o1000, 0o177, 0o200}).Draw(t, "perm")
	default:
		c.Perm = rapid.Uint32Range(0, 0o7777).Draw(t, "perm")
	}
	switch rapid.IntRange(0, 19).Draw(t, "modeclass") {
	case 7:
		c.ModeClass, c.Perm = 1, 0
	case 13:
		c.ModeClass = 2
		if c.Perm == 0 {
			c.Perm = 0o755
		}
	}
	c.HasMtime = rapid.IntRange(0, 3).Draw(t, "hasmtime") != 0
	if c.HasMtime {
		switch rapid.IntRange(0, 4).Draw(t, "secclass") {
		case 0:
			c.Sec = rapid.SampledFrom([]int64{0, 1, -1, 127, 128, 16383, 16384, 1<<31 - 1, 1 << 31, 1 << 35, 253402300799, -62135596800, -62135596801, 1 << 55, -(1 << 55)}).Draw(t, "sec")
		case 1:
			c.Sec = rapid.Int64Range(-(1<<55), -1).Draw(t, "sec")
		case 2:
			c.Sec = rapid.Int64Range(0, 1<<55).Draw(t, "sec")
		default:
			c.Sec = rapid.Int64Range(1400000000, 2000000000).Draw(t, "sec")
		}
		switch rapid.IntRange(0, 2).Draw(t, "nclass") {
		case 0:
			c.Nsec = 0
		case 1:
			c.Nsec = rapid.SampledFrom([]int64{1, 999999999, 127, 128}).Draw(t, "nsec")
		default:
			c.Nsec = rapid.Int64Range(1, 999999999).Draw(t, "nsec")
		}
	}
	c.CidV1 = rapid.Bool().Draw(t, "cidv1")
	if rapid.IntRange(0, 3).Draw(t, "ml") == 0 {
		c.MaxLinks = rapid.IntRange(1, nn).Draw(t, "maxlinks")
	}
	c.Dynamic = rapid.IntRange(0, 3).Draw(t, "dyn") == 0
	c.GlobalBlock = rapid.Bool().Draw(t, "globalblock")
	if c.GlobalBlock {
		c.NoModeOpt = rapid.Bool().Draw(t, "nomodeopt")
	}
	nops := rapid.IntRange(1, kit.Scale(25, 40)).Draw(t, "nops")
	present := map[int]bool{}
	for i := 0; i < nops; i++ {
		k := rapid.IntRange(0, 11).Draw(t, "opk")
		switch {
		case k <= 5: // add (new or replace, as the model state decides)
			var idx int
			var have []int
			for j := range c.Names {
				if present[j] {
					have = append(have, j)
				}
			}
			if len(have) > 0 && rapid.IntRange(0, 2).Draw(t, "replace") == 0 {
				idx = rapid.SampledFrom(have).Draw(t, "rname")
			} else {
				idx = rapid.IntRange(0, len(c.Names)-1).Draw(t, "name")
			}
			op := Op{Kind: "add", Name: idx, Child: genChild(t)}
			op.Oversize = rapid.IntRange(0, 7).Draw(t, "oversize") == 0
			c.Ops = append(c.Ops, op)
			if op.Oversize {
				// refused by the dag-pb node; a refused replacement has already dropped the old entry
				delete(present, idx)
			} else if !(c.MaxLinks > 0 && !c.Dynamic && !present[idx] && len(have) >= c.MaxLinks) {
				present[idx] = true
			}
		case k <= 8: // remove, mostly present
			idx := rapid.IntRange(-1, len(c.Names)-1).Draw(t, "name")
			var have []int
			for j := range c.Names {
				if present[j] {
					have = append(have, j)
				}
			}
			if len(have) > 0 && rapid.IntRange(0, 3).Draw(t, "present") != 0 {
				idx = rapid.SampledFrom(have).Draw(t, "pname")
			}
			c.Ops = append(c.Ops, Op{Kind: "remove", Name: idx})
			if idx >= 0 {
				delete(present, idx)
			}
		default:
			op := Op{Kind: "reload"}
			if c.GlobalBlock {
				op.NoInherit = rapid.Bool().Draw(t, "noinherit")
			}
			c.Ops = append(c.Ops, op)
		}
	}
	return c
}

var oversizeFiller = func() cid.Cid {
	h, _ := mh.Sum([]byte("verif-filler"), mh.SHA2_256, -1)
	return cid.NewCidV0(h)
}()

// oversizeChild builds a legal dag-pb node (CID per the spec's prefix: v0, or v1 dag-pb with
// the prefix's hash) holding one link whose Tsize is a legal value just below 2^63, so that
// the node's own cumulative Size() does not fit into an int64. ok=false if it does fit.
func oversizeChild(spec kit.ChildSpec) (*mdag.ProtoNode, bool) {
	p := spec.Prefix.Prefix()
	nd := mdag.NodeWithData([]byte{byte(spec.Salt), byte(spec.Salt >> 8), 0xee})
	if p.Version == 0 {
		nd.SetCidBuilder(nil)
	} else {
		pp := p
		pp.Codec = cid.DagProtobuf
		if err := nd.SetCidBuilder(pp); err != nil {
			return nil, false
		}
	}
	if err := nd.AddRawLink("big", &ipld.Link{Size: math.MaxInt64 - uint64(spec.Salt%8), Cid: oversizeFiller}); err != nil {
		return nil, false
	}
	sz, err := nd.Size()
	return nd, err == nil && sz > math.MaxInt64
}

// ---------------------------------------------------------------------------
// oracle

func varintClass(v uint64) int {
	n := 1
	for v >= 0x80 {
		v >>= 7
		n++
	}
	return n
}

func run(c Case) kit.Result {
	if len(c.Names) == 0 || c.Perm > 0o7777 || c.Nsec < 0 || c.Nsec > 999999999 || c.Sec > 1<<56 || c.Sec < -(1<<56) {
		return kit.Result{}
	}
	ctx := context.Background()
	ds := mdtest.Mock()
	mode := permsToFileMode(c.Perm)
	inDomain := true
	switch c.ModeClass {
	case 1:
		mode, inDomain = os.ModeDir, false
	case 2:
		mode, inDomain = mode|os.ModeDir, false
	}
	var mtime time.Time
	if c.HasMtime {
		mtime = time.Unix(c.Sec, c.Nsec)
	}
	if c.GlobalBlock {
		// cases run one at a time in this process; restored before the next case
		defer func(old uio.SizeEstimationMode) { uio.HAMTSizeEstimation = old }(uio.HAMTSizeEstimation)
		uio.HAMTSizeEstimation = uio.SizeEstimationBlock
	}
	opts := []uio.DirectoryOption{uio.WithStat(mode, mtime)}
	if !(c.GlobalBlock && c.NoModeOpt) {
		opts = append(opts, uio.WithSizeEstimationMode(uio.SizeEstimationBlock))
	}
	if c.CidV1 {
		opts = append(opts, uio.WithCidBuilder(cid.V1Builder{Codec: cid.DagProtobuf, MhType: mh.SHA2_256}))
	}
	if c.MaxLinks > 0 && !c.Dynamic {
		opts = append(opts, uio.WithMaxLinks(c.MaxLinks))
	}
	var dir uio.Directory
	var bd *uio.BasicDirectory
	if c.Dynamic {
		d, err := uio.NewDirectory(ds, opts...)
		if err != nil {
			return kit.Fail("NewDirectory: %v", err)
		}
		dir = d
		bd = d.(*uio.DynamicDirectory).Directory.(*uio.BasicDirectory)
	} else {
		d, err := uio.NewBasicDirectory(ds, opts...)
		if err != nil {
			return kit.Fail("NewBasicDirectory: %v", err)
		}
		dir, bd = d, d
	}

	mismatchOutside := 0
	check := func(when string) *kit.Result {
		nd, err := dir.GetNode()
		if err != nil {
			r := kit.Fail("%s: GetNode: %v", when, err)
			return &r
		}
		raw := nd.RawData()
		if len(raw) == 0 {
			r := kit.Fail("%s: directory node does not serialize", when)
			return &r
		}
		est := bd.VerifEstimatedSize()
		if est != len(raw) {
			if !inDomain {
				mismatchOutside++
				return nil
			}
			r := kit.Fail("%s: estimated size %d, serialized block is %d bytes (%d links, mode %v, mtime set=%v sec=%d nsec=%d)",
				when, est, len(raw), len(nd.Links()), mode, c.HasMtime, c.Sec, c.Nsec)
			return &r
		}
		return nil
	}
	if r := check("after construction"); r != nil {
		return *r
	}

	type ent struct{ tsize uint64 }
	model := map[int]ent{}
	const missing = "never-added-name"
	replClassChange, reloads, refused := false, 0, 0
	rejected, rejectedRepl, opsAfterReject, metaReloadGlobal := 0, 0, 0, 0
	for i, op := range c.Ops {
		when := fmt.Sprintf("op %d (%s)", i, op.Kind)
		switch op.Kind {
		case "add":
			if op.Name < 0 || op.Name >= len(c.Names) {
				return kit.Result{}
			}
			if op.Oversize {
				// An add attempt the dag-pb node refuses. Whether the call fails, and what a
				// failed replacement leaves behind, is not this property's business: the model
				// follows the directory; the estimate must match the block that is there.
				child, ok := oversizeChild(op.Child)
				if !ok {
					return kit.Result{}
				}
				_, had := model[op.Name]
				err := dir.AddChild(ctx, c.Names[op.Name], child)
				nd, gerr := dir.GetNode()
				if gerr != nil {
					return kit.Fail("%s: GetNode: %v", when, gerr)
				}
				pn, ok := nd.(*mdag.ProtoNode)
				if !ok {
					return kit.Result{Classes: []string{"became-hamt"}}
				}
				if l, lerr := pn.GetNodeLink(c.Names[op.Name]); lerr == nil {
					model[op.Name] = ent{l.Size}
				} else {
					delete(model, op.Name)
				}
				if err != nil {
					rejected++
					if had {
						rejectedRepl++
					}
				}
				break
			}
			if rejected > 0 {
				opsAfterReject++
			}
			child, ts := kit.MakeChild(op.Child)
			old, had := model[op.Name]
			wantRefuse := !c.Dynamic && c.MaxLinks > 0 && !had && len(model) >= c.MaxLinks
			err := dir.AddChild(ctx, c.Names[op.Name], child)
			if wantRefuse {
				if err == nil {
					return kit.Fail("%s: basic directory with maxLinks=%d accepted entry #%d", when, c.MaxLinks, len(model)+1)
				}
				refused++
			} else {
				if err != nil {
					return kit.Fail("%s: AddChild(%q): %v", when, c.Names[op.Name], err)
				}
				if had && varintClass(old.tsize) != varintClass(ts) {
					replClassChange = true
				}
				model[op.Name] = ent{ts}
			}
		case "remove":
			name := missing
			if op.Name >= 0 {
				if op.Name >= len(c.Names) {
					return kit.Result{}
				}
				name = c.Names[op.Name]
			}
			_, had := model[op.Name]
			err := dir.RemoveChild(ctx, name)
			if had && err != nil {
				return kit.Fail("%s: RemoveChild(%q): %v", when, name, err)
			}
			if !had && !errors.Is(err, os.ErrNotExist) {
				return kit.Fail("%s: RemoveChild of a missing name returned %v", when, err)
			}
			delete(model, op.Name)
		case "reload":
			nd, err := dir.GetNode()
			if err != nil {
				return kit.Fail("%s: GetNode: %v", when, err)
			}
			pn, ok := nd.(*mdag.ProtoNode)
			if !ok {
				return kit.Fail("%s: basic directory node is %T", when, nd)
			}
			reloads++
			inherit := !(c.GlobalBlock && op.NoInherit)
			if c.GlobalBlock && (mode != 0 || c.HasMtime) {
				metaReloadGlobal++
			}
			if c.Dynamic {
				d, err := uio.NewDirectoryFromNode(ds, pn)
				if err != nil {
					return kit.Fail("%s: NewDirectoryFromNode: %v", when, err)
				}
				if inherit {
					d.SetSizeEstimationMode(uio.SizeEstimationBlock)
				}
				b, ok := d.(*uio.DynamicDirectory).Directory.(*uio.BasicDirectory)
				if !ok {
					return kit.Fail("%s: reloaded basic node is a %T", when, d.(*uio.DynamicDirectory).Directory)
				}
				dir, bd = d, b
			} else {
				b := uio.NewBasicDirectoryFromNode(ds, pn.Copy().(*mdag.ProtoNode))
				if inherit {
					b.SetSizeEstimationMode(uio.SizeEstimationBlock)
				}
				b.SetMaxLinks(c.MaxLinks)
				dir, bd = b, b
			}
		default:
			return kit.Result{}
		}
		if c.Dynamic {
			b, ok := dir.(*uio.DynamicDirectory).Directory.(*uio.BasicDirectory)
			if !ok {
				// cannot happen below the 256 KiB default threshold; nothing to compare then
				return kit.Result{Classes: []string{"became-hamt"}}
			}
			bd = b
		}
		if r := check(when); r != nil {
			return *r
		}
		if n := bd.VerifTotalLinks(); n != len(model) {
			return kit.Fail("%s: directory tracks %d links, %d entries exist", when, n, len(model))
		}
	}

	cls := []string{fmt.Sprintf("modeclass:%d", c.ModeClass)}
	if c.Dynamic {
		cls = append(cls, "via:dynamic")
	} else {
		cls = append(cls, "via:basic")
	}
	negOrSub := c.HasMtime && (c.Sec < 0 || c.Nsec != 0)
	if negOrSub {
		cls = append(cls, "mtime:negative-or-subsecond")
	} else if c.HasMtime {
		cls = append(cls, "mtime:plain")
	} else {
		cls = append(cls, "mtime:unset")
	}
	if replClassChange {
		cls = append(cls, "replace-changes-tsize-class")
	}
	if reloads > 0 {
		cls = append(cls, "reload")
	}
	if refused > 0 {
		cls = append(cls, "maxlinks-refusal")
	}
	if c.GlobalBlock {
		cls = append(cls, "block-mode-from-global")
	}
	if metaReloadGlobal > 0 {
		cls = append(cls, "reload-with-metadata-under-global-block-mode")
	}
	if rejected > 0 {
		cls = append(cls, "add-rejected-by-node(tsize-overflow)")
	}
	if rejectedRepl > 0 {
		cls = append(cls, "replacement-rejected-by-node")
	}
	if opsAfterReject > 0 {
		cls = append(cls, "adds-after-rejected-add")
	}
	if mismatchOutside > 0 {
		cls = append(cls, fmt.Sprintf("mismatch-outside-domain-modeclass%d(counted,not asserted)", c.ModeClass))
	}
	for _, s := range c.Names {
		if s == "" {
			cls = append(cls, "empty-name")
			break
		}
	}
	return kit.Result{NonTrivial: inDomain && (replClassChange || negOrSub || rejected > 0 || metaReloadGlobal > 0), Classes: cls}
}

var spec = kit.Spec[Case]{
	Prop: "C17", Name: "main",
	Rule:  "BasicDirectory in block-size mode (directly or inside a DynamicDirectory), mode 0..07777, mtime over sign/nanosecond classes, 1-10 names of 0..300 bytes (varint boundaries), targets over CIDv0/v1 x hash lengths (incl. truncated, identity) with Tsize over varint length classes 0..2^63-1, 1-25 (thorough 40) ops add/replace/remove/remove-missing/reload/add refused by the dag-pb node (child whose cumulative size exceeds 2^63-1); block mode chosen per instance or (half the cases) through the package-global HAMTSizeEstimation, reloads then with or without the inheriting SetSizeEstimationMode call; estimate == len(RawData()) after every step; non-trivial = a replacement changed the Tsize varint class, or the mtime is negative / has nanoseconds, or an add was rejected by the node, or a directory with metadata was reloaded under the global block mode (mode classes with type bits are executed but only counted)",
	Quick: 15000, Thorough: 100000,
	Gen: gen, Run: run,
}

func TestProp(t *testing.T) { kit.All(t, spec) }
