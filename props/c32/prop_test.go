package c32

import (
	"context"
	"errors"
	"fmt"
	"net"
	"net/http"
	"net/http/httptest"
	"net/url"
	"strings"
	"testing"

	"github.com/ipfs/boxo/gateway"
	"github.com/ipfs/boxo/path"
	cid "github.com/ipfs/go-cid"
	"github.com/libp2p/go-libp2p/core/peer"
	mbase "github.com/multiformats/go-multibase"
	mh "github.com/multiformats/go-multihash"
	"pgregory.net/rapid"
	"verif/kit"
)

func TestMain(m *testing.M) { kit.Main(m) }

// ===========================================================================
// sub-check "label": InlineDNSLink / UninlineDNSLink

type LabelCase struct {
	Name string `json:"name"`
}

// genLabel: LDH label, 1..max chars, no leading/trailing hyphen, inner hyphens and "--" allowed.
func genLabel(t *rapid.T, max int, tag string) string {
	if max < 1 {
		max = 1
	}
	n := rapid.IntRange(1, max).Draw(t, tag+"_len")
	if rapid.IntRange(0, 3).Draw(t, tag+"_short") != 0 && n > 12 {
		n = rapid.IntRange(1, 12).Draw(t, tag+"_len2")
	}
	const alnum = "abcdefghijklmnopqrstuvwxyz0123456789"
	b := make([]byte, n)
	for i := range b {
		if i > 0 && i < n-1 && rapid.IntRange(0, 4).Draw(t, tag+"_hy") == 0 {
			b[i] = '-'
		} else {
			b[i] = alnum[rapid.IntRange(0, len(alnum)-1).Draw(t, tag+"_ch")]
		}
	}
	return string(b)
}

// genDNSName: valid host name (RFC 1123): 1..5 labels, total <= 253.
func genDNSName(t *rapid.T, tag string) string {
	n := rapid.SampledFrom([]int{1, 2, 2, 3, 3, 4, 5}).Draw(t, tag+"_labels")
	var labels []string
	for i := 0; i < n; i++ {
		max := 20
		if rapid.IntRange(0, 7).Draw(t, tag+"_long") == 0 {
			max = 63
		}
		labels = append(labels, genLabel(t, max, fmt.Sprintf("%s_l%d", tag, i)))
	}
	// make the last label alphabetic so that the name is never an IP address
	last := []byte(labels[n-1])
	for i := range last {
		if last[i] >= '0' && last[i] <= '9' {
			last[i] = 'a' + (last[i] - '0')
		}
	}
	labels[n-1] = string(last)
	name := strings.Join(labels, ".")
	if len(name) > 253 {
		name = name[len(name)-253:]
		name = strings.TrimLeft(name, ".-")
	}
	return name
}

func inlinedLen(name string) int {
	return len(name) + strings.Count(name, "-")
}

func runLabel(c LabelCase) kit.Result {
	want := inlinedLen(c.Name)
	label, err := gateway.InlineDNSLink(c.Name)
	classes := []string{}
	if err != nil {
		if want <= 63 {
			return kit.Fail("InlineDNSLink(%q) failed (%v) although the inlined form has %d <= 63 characters", c.Name, err, want)
		}
		return kit.Result{Classes: []string{"toolong"}}
	}
	if len(label) > 63 {
		return kit.Fail("InlineDNSLink(%q) = %q has %d > 63 characters", c.Name, label, len(label))
	}
	if strings.Contains(label, ".") || label == "" {
		return kit.Fail("InlineDNSLink(%q) = %q is not a single DNS label", c.Name, label)
	}
	for i := 0; i < len(label); i++ {
		ch := label[i]
		if !(ch == '-' || (ch >= 'a' && ch <= 'z') || (ch >= '0' && ch <= '9')) {
			return kit.Fail("InlineDNSLink(%q) = %q contains %q", c.Name, label, ch)
		}
	}
	back := gateway.UninlineDNSLink(label)
	if back != c.Name {
		return kit.Fail("UninlineDNSLink(InlineDNSLink(%q)=%q) = %q", c.Name, label, back)
	}
	nt := strings.Contains(c.Name, "-") && strings.Contains(c.Name, ".")
	if strings.Contains(c.Name, "--") {
		classes = append(classes, "double-hyphen")
	}
	if want >= 60 {
		classes = append(classes, "near-limit")
	}
	return kit.Result{NonTrivial: nt, Classes: classes}
}

var labelSpec = kit.Spec[LabelCase]{
	Prop: "C32", Name: "label",
	Rule:  "valid DNS host names (1-5 LDH labels of 1..63 chars with inner hyphens incl. '--', lengths around the 63-character inlined limit); InlineDNSLink succeeds iff the inlined form fits 63 characters, the label is a single LDH label and UninlineDNSLink gives back the name; non-trivial = the name has both a dot and a hyphen",
	Quick: 20000, Thorough: 150000,
	Gen: func(t *rapid.T) LabelCase {
		name := genDNSName(t, "n")
		if rapid.IntRange(0, 3).Draw(t, "fit") == 0 {
			// steer the inlined length towards the limit
			for inlinedLen(name) < 58 {
				name = genLabel(t, 10, "pad") + "." + name
			}
		}
		return LabelCase{Name: name}
	},
	Run: runLabel,
}

func TestPropLabel(t *testing.T) { kit.All(t, labelSpec) }

// ===========================================================================
// sub-check "main": NewHostnameHandler with a recording next handler

type Case struct {
	GwKey           string   `json:"gw_key"`  // key in PublicGateways ("gw.example", "localhost:8080", "*.wild.example")
	GwHost          string   `json:"gw_host"` // concrete gateway host used in requests
	UseSubdomains   bool     `json:"use_subdomains"`
	InlineDNSLink   bool     `json:"inline_dnslink"`
	GwNoDNSLink     bool     `json:"gw_no_dnslink"`
	GlobalNoDNSLink bool     `json:"global_no_dnslink"`
	Paths           []string `json:"paths"`
	DNSLinks        []string `json:"dnslinks"` // names that have a DNSLink record

	Kind     string `json:"kind"`      // path | subdomain | dnslink-host
	NS       string `json:"ns"`        // ipfs | ipns
	RootKind string `json:"root_kind"` // cid | peer | dns
	Root     string `json:"root"`      // root identifier exactly as put into the request
	Rem      string `json:"rem"`       // decoded remainder, no leading slash
	Query    string `json:"query"`     // raw query
	Fragment string `json:"fragment"`  // kept by the client, never sent
	XFProto  string `json:"xf_proto"`  // "" | https | http
	XFHost   string `json:"xf_host"`   // "" | only (Host is the proxy's internal name, real host in X-Forwarded-Host) | both (Host passed through too)

	// HostPort: explicit port the client puts into Host ("" = none), e.g. "site.example:8080"; only for
	// hosts that do not carry a port already
	HostPort string `json:"host_port,omitempty"`
	// Site (kind dnslink-host only): the DNSLink host is itself listed in PublicGateways, the way a
	// DNSLink website is pinned to a gateway ({Paths: [], NoDNSLink: false}) or ipfs.io serves both
	Site *SiteGw `json:"site,omitempty"`
}

// SiteGw is a second PublicGateways entry, for the DNSLink host of a dnslink-host request.
type SiteGw struct {
	Key       string   `json:"key"` // "<fqdn>" | "<fqdn>:<port>" | "*.<parent of fqdn>"
	Paths     []string `json:"paths"`
	NoDNSLink bool     `json:"no_dnslink"`
}

// ---- generators

type mhSpec struct {
	code uint64
	len  int
}

func genDigest(t *rapid.T, n int) []byte {
	s := rapid.Uint64().Draw(t, "digest_seed") | 1
	b := make([]byte, n)
	for i := range b {
		s ^= s << 13
		s ^= s >> 7
		s ^= s << 17
		b[i] = byte(s >> 24)
	}
	return b
}

func genMultihash(t *rapid.T) mh.Multihash {
	hs := rapid.SampledFrom([]mhSpec{{mh.SHA2_256, 32}, {mh.SHA2_256, 32}, {mh.SHA2_256, 32}, {mh.BLAKE2B_MIN + 31, 32}, {mh.SHA3_256, 32}, {mh.SHA1, 20}, {mh.SHA2_512, 64}, {mh.IDENTITY, -1}, {mh.SHA2_256, 20}}).Draw(t, "mh")
	n := hs.len
	if n < 0 {
		n = rapid.IntRange(0, 40).Draw(t, "idlen")
	}
	m, err := mh.Encode(genDigest(t, n), hs.code)
	if err != nil {
		panic(err)
	}
	return m
}

var pathBases = []mbase.Encoding{mbase.Base32, mbase.Base32, mbase.Base36, mbase.Base58BTC, mbase.Base16, mbase.Base64url, mbase.Base32Upper, mbase.Base36Upper}
var hostBases = []mbase.Encoding{mbase.Base32, mbase.Base32, mbase.Base36, mbase.Base16}

func genCidString(t *rapid.T, host bool) string {
	m := genMultihash(t)
	dm, _ := mh.Decode(m)
	if !host && dm.Code == mh.SHA2_256 && dm.Length == 32 && rapid.IntRange(0, 2).Draw(t, "v0") == 0 {
		return cid.NewCidV0(m).String()
	}
	codec := rapid.SampledFrom([]uint64{cid.Raw, cid.DagProtobuf, cid.DagProtobuf, cid.DagCBOR, cid.DagJSON, cid.Libp2pKey}).Draw(t, "codec")
	bases := pathBases
	if host {
		bases = hostBases
	}
	s, err := cid.NewCidV1(codec, m).StringOfBase(rapid.SampledFrom(bases).Draw(t, "base"))
	if err != nil {
		panic(err)
	}
	return s
}

// genPeerString: a peer ID in one of its textual forms.
func genPeerString(t *rapid.T, host bool) string {
	var m mh.Multihash
	switch rapid.IntRange(0, 2).Draw(t, "keytype") {
	case 0: // RSA-style: sha2-256 of the public key
		m, _ = mh.Encode(genDigest(t, 32), mh.SHA2_256)
	case 1: // ed25519: identity multihash of the 36-byte protobuf key
		m, _ = mh.Encode(append([]byte{0x08, 0x01, 0x12, 0x20}, genDigest(t, 32)...), mh.IDENTITY)
	default: // secp256k1: identity multihash of the 37-byte protobuf key
		m, _ = mh.Encode(append([]byte{0x08, 0x02, 0x12, 0x21}, genDigest(t, 33)...), mh.IDENTITY)
	}
	form := rapid.IntRange(0, 4).Draw(t, "peerform")
	if host && form == 0 {
		form = 1
	}
	switch form {
	case 0: // legacy base58 multihash (Qm..., 12D3Koo..., 16Uiu2...)
		return peer.ID(m).String()
	case 1, 2: // CIDv1 libp2p-key
		bases := []mbase.Encoding{mbase.Base36, mbase.Base32}
		if !host {
			bases = append(bases, mbase.Base58BTC, mbase.Base16)
		}
		s, _ := cid.NewCidV1(cid.Libp2pKey, m).StringOfBase(rapid.SampledFrom(bases).Draw(t, "pbase"))
		return s
	default: // CIDv1 with the legacy dag-pb codec
		bases := []mbase.Encoding{mbase.Base32, mbase.Base36}
		s, _ := cid.NewCidV1(cid.DagProtobuf, m).StringOfBase(rapid.SampledFrom(bases).Draw(t, "pbase"))
		return s
	}
}

var remSegs = []string{"a", "b.txt", "index.html", "dir", "with space", "q?mark", "ha#sh", "per%cent", "pl+us", "ü", "日本", "a&b=c", "semi;colon", "%20", "x:y", "tilde~", "quo\"te", "-dash-", "ipfs", "ipns"}

func genRem(t *rapid.T) string {
	n := rapid.SampledFrom([]int{0, 0, 1, 1, 2, 3}).Draw(t, "nseg")
	var segs []string
	for i := 0; i < n; i++ {
		if rapid.IntRange(0, 3).Draw(t, "rndseg") == 0 {
			segs = append(segs, rapid.StringMatching(`[a-zA-Z0-9_.~-]{1,8}`).Filter(func(s string) bool { return s != "." && s != ".." }).Draw(t, "seg"))
		} else {
			segs = append(segs, rapid.SampledFrom(remSegs).Draw(t, "seg"))
		}
	}
	r := strings.Join(segs, "/")
	if n > 0 && rapid.IntRange(0, 3).Draw(t, "trail") == 0 {
		r += "/"
	}
	return r
}

var queries = []string{"", "", "", "a=b", "filename=x.txt&download=true", "q=a%20b", "q=a+b", "k=%3F%23%26", "x=1&x=2", "empty=", "flag", "u=%E6%97%A5", "format=car"}

// Raw query strings as clients really send them. The hostname handler has no business interpreting the
// query, so the generator is not limited to what Go's url.Values.Encode would produce: keys in any
// order, repeated keys, keys without '=', empty keys / empty parameters, %20 next to '+', upper- and
// lower-case percent escapes, escaped reserved characters, sub-delims and the characters browsers send
// unescaped in a query (RFC 3986 query = pchar / "/" / "?", WHATWG query percent-encode set), a
// literal ';', and malformed percent escapes (sent as-is by browsers and curl, accepted by net/http).
// ("uri" is never a key: ?uri= is the registerProtocolHandler redirect, a different feature of the same handler)
var qKeys = []string{"format", "dag-scope", "filename", "download", "entity-bytes", "car-dups", "z", "a", "m", "b", "x", "X", "k%20ey", "k+ey", "%E6%97%A5", "arr[]"}
var qVals = []string{"car", "raw", "true", "1", "2", "entity", "0:*", "x.txt", "a%20b", "a+b", "a%20b+c", "%E6%97%A5", "%e6%97%a5", "%3F%23%26", "%2Fipfs%2Fx", "/ipfs/x", "ipfs://bafkqaaa/x?y", "a=b", "a;b", ";", "100%", "%zz", "%", "~._-", "!$'()*,", "a|b", "[1]", "{x}", "a:b@c", "%7E", "%2B", "%3D%26"}

func genQuery(t *rapid.T) string {
	switch rapid.IntRange(0, 9).Draw(t, "qclass") {
	case 0, 1, 2:
		return ""
	case 3, 4:
		return rapid.SampledFrom(queries).Draw(t, "query")
	}
	n := rapid.SampledFrom([]int{1, 1, 2, 2, 2, 3, 3, 4, 5}).Draw(t, "qparams")
	var parts []string
	for i := 0; i < n; i++ {
		k := rapid.SampledFrom(qKeys).Draw(t, "qkey")
		if i > 0 && rapid.IntRange(0, 5).Draw(t, "qrepeat") == 0 {
			k = strings.SplitN(parts[rapid.IntRange(0, i-1).Draw(t, "qrepeat_of")], "=", 2)[0] // repeated key
		}
		switch rapid.IntRange(0, 11).Draw(t, "qform") {
		case 0, 1: // key without '='
			parts = append(parts, k)
		case 2: // key with empty value
			parts = append(parts, k+"=")
		case 3: // empty key / empty parameter
			parts = append(parts, rapid.SampledFrom([]string{"", "=", "=v"}).Draw(t, "qempty"))
		default:
			parts = append(parts, k+"="+rapid.SampledFrom(qVals).Draw(t, "qval"))
		}
	}
	return strings.Join(parts, "&")
}

// canonicalQuery: is the raw query exactly what Go's url.Values would serialise (sorted keys, '=' after
// every key, '+' for space, upper-case escapes)? Only then is parse-and-re-encode the identity.
func canonicalQuery(q string) bool {
	v, err := url.ParseQuery(q)
	return err == nil && v.Encode() == q
}

func gen(t *rapid.T) Case {
	c := Case{}
	switch rapid.IntRange(0, 3).Draw(t, "gwclass") {
	case 0:
		c.GwKey, c.GwHost = "localhost:8080", "localhost:8080"
	case 1:
		c.GwKey = "*.wild.example"
		c.GwHost = genLabel(t, 8, "wild") + ".wild.example"
	default:
		c.GwKey, c.GwHost = "gw.example", "gw.example"
	}
	c.UseSubdomains = rapid.IntRange(0, 4).Draw(t, "use_subdomains") != 0
	c.InlineDNSLink = rapid.Bool().Draw(t, "inline")
	c.GwNoDNSLink = rapid.IntRange(0, 5).Draw(t, "gw_nodnslink") == 0
	c.GlobalNoDNSLink = rapid.IntRange(0, 5).Draw(t, "global_nodnslink") == 0
	c.Paths = rapid.SampledFrom([][]string{{"/ipfs", "/ipns"}, {"/ipfs", "/ipns"}, {"/ipfs/", "/ipns/"}, {"/ipfs"}}).Draw(t, "paths")

	// DNSLink names with a record; no two of them may collide under inlining
	nd := rapid.IntRange(0, 3).Draw(t, "ndnslinks")
	for i := 0; i < nd; i++ {
		name := genDNSName(t, fmt.Sprintf("dl%d", i))
		if rapid.IntRange(0, 4).Draw(t, "near63") == 0 {
			for inlinedLen(name) < 58 {
				name = genLabel(t, 10, "pad") + "." + name
			}
		}
		ok := !strings.HasSuffix(name, c.GwHost) && name != stripPort(c.GwHost)
		for _, o := range c.DNSLinks {
			if o == name || gateway.UninlineDNSLink(o) == name || gateway.UninlineDNSLink(name) == o {
				ok = false
			}
		}
		if ok {
			c.DNSLinks = append(c.DNSLinks, name)
		}
	}

	c.Kind = rapid.SampledFrom([]string{"path", "path", "path", "subdomain", "subdomain", "dnslink-host"}).Draw(t, "kind")
	host := c.Kind == "subdomain"
	switch c.Kind {
	case "dnslink-host":
		c.NS, c.RootKind = "ipns", "dns"
		if len(c.DNSLinks) > 0 && rapid.IntRange(0, 4).Draw(t, "known") != 0 {
			c.Root = rapid.SampledFrom(c.DNSLinks).Draw(t, "dl")
		} else {
			c.Root = genDNSName(t, "unknown")
		}
	default:
		switch rapid.IntRange(0, 5).Draw(t, "rootclass") {
		case 0, 1, 2:
			c.NS, c.RootKind = "ipfs", "cid"
			c.Root = genCidString(t, host)
		case 3:
			c.NS, c.RootKind = "ipns", "peer"
			c.Root = genPeerString(t, host)
		default:
			c.NS, c.RootKind = "ipns", "dns"
			if len(c.DNSLinks) > 0 && rapid.IntRange(0, 4).Draw(t, "known") != 0 {
				c.Root = rapid.SampledFrom(c.DNSLinks).Draw(t, "dl")
				// sometimes address it by its inlined label
				if l, err := gateway.InlineDNSLink(c.Root); err == nil && l != c.Root && rapid.IntRange(0, 2).Draw(t, "use_inlined") == 0 {
					c.Root = l
				}
			} else {
				c.Root = genDNSName(t, "unknown")
			}
		}
	}
	c.Rem = genRem(t)
	c.Query = genQuery(t)
	c.Fragment = rapid.SampledFrom([]string{"", "", "frag", "a/b", "x=y"}).Draw(t, "fragment")
	c.XFProto = rapid.SampledFrom([]string{"", "", "", "https", "https", "http"}).Draw(t, "xfproto")
	c.XFHost = rapid.SampledFrom([]string{"", "", "", "", "only", "both"}).Draw(t, "xfhost")

	// explicit port in Host (the DNSLink host never has one yet; the gateway host only if it is not "localhost:8080")
	if c.Kind == "dnslink-host" || !strings.Contains(c.GwHost, ":") {
		c.HostPort = rapid.SampledFrom([]string{"", "", "8080", "8080", "80", "443", "1"}).Draw(t, "hostport")
	}
	// the DNSLink host is a known gateway hostname itself
	if c.Kind == "dnslink-host" && rapid.Bool().Draw(t, "site") {
		site := &SiteGw{Key: c.Root}
		switch rapid.IntRange(0, 4).Draw(t, "sitekey") {
		case 0: // key with port: matches only a Host with exactly that port
			if c.HostPort != "" {
				site.Key = c.Root + ":" + c.HostPort
			} else {
				site.Key = c.Root + ":8080"
			}
		case 1: // wildcard over the parent domain
			if i := strings.Index(c.Root, "."); i > 0 {
				site.Key = "*" + c.Root[i:]
			}
		}
		site.Paths = rapid.SampledFrom([][]string{{}, {}, {}, {"/ipfs", "/ipns"}, {"/ipfs/"}, {"/version", "/dir"}}).Draw(t, "sitepaths")
		site.NoDNSLink = rapid.IntRange(0, 3).Draw(t, "site_nodnslink") == 0
		// each host must match at most one PublicGateways entry, otherwise the configuration is ambiguous
		reqHost := hostWithPort(c.Root, c.HostPort)
		if site.Key != c.GwKey && !keyMatches(site.Key, c.GwHost) && !keyMatches(c.GwKey, reqHost) {
			c.Site = site
		}
	}
	// a website path whose first segment merely starts with the name of a gateway path ("/ipfs-docs/x",
	// "/ipfs.html", "/ipnsfoo", "/version2"): that is site content, not a path under the "/ipfs" prefix
	if c.Kind == "dnslink-host" && rapid.IntRange(0, 2).Draw(t, "nearprefix") == 0 {
		paths := c.Paths
		if c.Site != nil && len(c.Site.Paths) > 0 {
			paths = c.Site.Paths
		}
		base := strings.Trim(rapid.SampledFrom(paths).Draw(t, "nearprefix_of"), "/")
		seg := base + rapid.SampledFrom([]string{"-docs", "foo", ".html", "2", "_", "~", "%2F", " x", "ü"}).Draw(t, "nearprefix_suffix")
		if c.Rem == "" {
			c.Rem = seg
		} else {
			c.Rem = seg + "/" + c.Rem
		}
	}
	return c
}

func hostWithPort(h, port string) string {
	if port == "" || strings.Contains(h, ":") {
		return h
	}
	return h + ":" + port
}

// keyMatches: does the PublicGateways key select this Host value? Documented matching: the value as-is,
// then without its port; "*" in a key stands for exactly one DNS label and the port is optional.
func keyMatches(key, host string) bool {
	if !strings.Contains(key, "*") {
		return key == host || key == stripPort(host)
	}
	rest := strings.TrimPrefix(key, "*") // ".parent.tld"
	h := stripPort(host)
	if !strings.HasPrefix(key, "*.") || !strings.HasSuffix(h, rest) {
		return false
	}
	first := strings.TrimSuffix(h, rest)
	return first != "" && !strings.Contains(first, ".")
}

// pathCovered: is the request path under one of the gateway's Paths prefixes ("/ipfs" covers "/ipfs" and "/ipfs/...")?
func pathCovered(paths []string, p string) bool {
	for _, prefix := range paths {
		prefix = strings.TrimSuffix(prefix, "/")
		if p == prefix || strings.HasPrefix(p, prefix+"/") {
			return true
		}
	}
	return false
}

func stripPort(h string) string {
	if host, _, err := net.SplitHostPort(h); err == nil {
		return host
	}
	return h
}

// ---- mock backend: only DNSLink lookups are meaningful

type mockBackend struct {
	gateway.IPFSBackend
	names map[string]bool
}

func (m *mockBackend) GetDNSLinkRecord(_ context.Context, host string) (path.Path, error) {
	if m.names[host] {
		return path.NewPath("/ipfs/bafkqaaa")
	}
	return nil, errors.New("no DNSLink record")
}

type seen struct {
	called bool
	path   string
	query  string
}

func escapePath(p string) string { return (&url.URL{Path: p}).EscapedPath() }

// identity of a root identifier: multihash bytes, or "" if it is not a CID / peer ID
func identity(s string) (string, bool) {
	if c, err := cid.Decode(s); err == nil {
		return string(c.Hash()), true
	}
	if p, err := peer.Decode(s); err == nil {
		return string(p), true
	}
	return "", false
}

// sameQuery: "the query is preserved". The query is opaque to the hostname handler (its meaning belongs
// to the handler behind it and to the client: parameter order, 'k' vs 'k=', '%20' vs '+' - a literal
// plus under RFC 3986 - and parameters Go's form parser rejects are all observable there), so preserved
// means the raw query string is carried over unchanged.
func sameQuery(a, b string) bool { return a == b }

func pathAllowed(paths []string, ns string) bool {
	for _, p := range paths {
		if strings.TrimSuffix(p, "/") == "/"+ns {
			return true
		}
	}
	return false
}

func run(c Case) kit.Result {
	names := map[string]bool{}
	for _, n := range c.DNSLinks {
		names[n] = true
	}
	backend := &mockBackend{names: names}
	cfg := gateway.Config{
		NoDNSLink: c.GlobalNoDNSLink,
		PublicGateways: map[string]*gateway.PublicGateway{
			c.GwKey: {Paths: c.Paths, UseSubdomains: c.UseSubdomains, InlineDNSLink: c.InlineDNSLink, NoDNSLink: c.GwNoDNSLink, DeserializedResponses: true},
		},
	}
	if c.Site != nil {
		cfg.PublicGateways[c.Site.Key] = &gateway.PublicGateway{Paths: c.Site.Paths, NoDNSLink: c.Site.NoDNSLink, DeserializedResponses: true}
	}
	var rec seen
	next := http.HandlerFunc(func(w http.ResponseWriter, r *http.Request) {
		rec = seen{called: true, path: r.URL.Path, query: r.URL.RawQuery}
		w.WriteHeader(http.StatusOK)
	})
	h := gateway.NewHostnameHandler(cfg, backend, next)

	// the request as a client would send it
	var host, reqPath string
	switch c.Kind {
	case "path":
		host = hostWithPort(c.GwHost, c.HostPort)
		reqPath = "/" + c.NS + "/" + c.Root
		if c.Rem != "" {
			reqPath += "/" + c.Rem
		}
	case "subdomain":
		host = c.Root + "." + c.NS + "." + hostWithPort(c.GwHost, c.HostPort)
		reqPath = "/" + c.Rem
	case "dnslink-host":
		host = hostWithPort(c.Root, c.HostPort)
		reqPath = "/" + c.Rem
	}
	// a DNSLink host that is also a known gateway hostname: its own entry decides (Paths, NoDNSLink)
	siteKnown := c.Kind == "dnslink-host" && c.Site != nil && keyMatches(c.Site.Key, host)
	siteCovered := siteKnown && pathCovered(c.Site.Paths, reqPath)
	origPath := reqPath
	escPath := escapePath(reqPath)
	query := c.Query
	fragment := c.Fragment
	xfproto := c.XFProto

	// what the content is
	wantNS := c.NS
	wantID, isID := identity(c.Root)
	wantName := ""
	if c.RootKind == "dns" {
		isID = false
		wantName = c.Root
		if !strings.Contains(c.Root, ".") && strings.Contains(c.Root, "-") {
			if u := gateway.UninlineDNSLink(c.Root); names[u] {
				wantName = u
			}
		}
	} else if !isID {
		return kit.Fail("harness: root %q is neither CID nor peer ID", c.Root)
	}

	desc := fmt.Sprintf("%s Host=%s %s?%s (X-Forwarded-Proto=%q, xfhost=%q; gw %s subdomains=%v inline=%v paths=%v nodnslink=%v/%v; dnslinks=%v)",
		c.Kind, host, escPath, query, c.XFProto, c.XFHost, c.GwKey, c.UseSubdomains, c.InlineDNSLink, c.Paths, c.GwNoDNSLink, c.GlobalNoDNSLink, c.DNSLinks)
	if c.Site != nil {
		desc += fmt.Sprintf(" (also gw %s paths=%v nodnslink=%v)", c.Site.Key, c.Site.Paths, c.Site.NoDNSLink)
	}
	var trail []string
	fail := func(format string, a ...any) kit.Result {
		return kit.Fail("%s: %s [hops: %s]", desc, fmt.Sprintf(format, a...), strings.Join(trail, " -> "))
	}

	redirects := 0
	status := 0
	for {
		target := escPath
		if query != "" {
			target += "?" + query
		}
		req := httptest.NewRequest("GET", target, nil)
		req.Host = host
		if c.XFHost != "" {
			req.Header.Set("X-Forwarded-Host", host)
			if c.XFHost == "only" {
				req.Host = "proxy.internal"
			}
		}
		if xfproto != "" {
			req.Header.Set("X-Forwarded-Proto", xfproto)
		}
		rec = seen{}
		w := httptest.NewRecorder()
		h.ServeHTTP(w, req)
		status = w.Code
		trail = append(trail, fmt.Sprintf("%s%s => %d", host, target, status))
		if rec.called {
			break
		}
		if status == http.StatusMovedPermanently || status == http.StatusFound || status == http.StatusTemporaryRedirect || status == http.StatusPermanentRedirect {
			redirects++
			loc := w.Header().Get("Location")
			if redirects > 4 {
				r := fail("redirect loop")
				// known finding: the canonical-CID check of the subdomain branch looks at r.Host instead of the
				// effective host, so behind a proxy that only sets X-Forwarded-Host every CID subdomain
				// request is redirected to itself
				if u, err := url.Parse(loc); err == nil && c.XFHost == "only" && u.Host == host && isID {
					r.Known = "xfh-canonical-redirect-loop"
				}
				return r
			}
			u, err := url.Parse(loc)
			if err != nil {
				return fail("unparsable Location %q: %v", loc, err)
			}
			if u.Host == "" {
				return fail("Location %q without a host", loc)
			}
			for _, l := range strings.Split(stripPort(u.Host), ".") {
				if len(l) > 63 || len(l) == 0 {
					return fail("Location %q has a host label of %d characters", loc, len(l))
				}
			}
			host = u.Host
			escPath = u.EscapedPath()
			if escPath == "" {
				escPath = "/"
			}
			if !sameQuery(u.RawQuery, query) {
				return fail("redirect changed the query from %q to %q (Location %q)", query, u.RawQuery, loc)
			}
			query = u.RawQuery
			if u.Fragment != "" {
				fragment = u.Fragment // a fragment in Location overrides the one the client kept
			}
			if u.Scheme == "https" {
				xfproto = "https"
			}
			trail = append(trail, "Location: "+loc)
			continue
		}
		break
	}

	classes := []string{"kind:" + c.Kind, "root:" + c.RootKind, fmt.Sprintf("redirects:%d", redirects), fmt.Sprintf("final:%d", status)}
	if c.HostPort != "" {
		classes = append(classes, "host:explicit-port")
	}
	if c.Site != nil {
		if siteKnown {
			classes = append(classes, "site:known-gateway")
			if !siteCovered {
				for _, p := range c.Site.Paths {
					if strings.HasPrefix(reqPath, strings.TrimSuffix(p, "/")) {
						classes = append(classes, "site:path-near-gateway-prefix")
						break
					}
				}
			}
		} else {
			classes = append(classes, "site:key-not-matching")
		}
	}
	if !rec.called {
		// no content path was produced; only some refusals are in order
		switch status {
		case http.StatusNotFound:
			gwHandlesNS := pathAllowed(c.Paths, c.NS)
			if c.Kind == "path" && !gwHandlesNS {
				return kit.Result{Classes: append(classes, "refused:path-not-served")}
			}
			if c.Kind == "subdomain" && (!c.UseSubdomains || !gwHandlesNS) {
				return kit.Result{Classes: append(classes, "refused:no-subdomains")}
			}
			if redirects > 0 && !gwHandlesNS {
				return kit.Result{Classes: append(classes, "refused:path-not-served")}
			}
			// known gateway hostname, path outside its Paths, and no DNSLink to fall back on (disabled for
			// this hostname, or no record): "resource does not exist on the hostname"
			if siteKnown && !siteCovered && (c.Site.NoDNSLink || !names[c.Root]) {
				return kit.Result{Classes: append(classes, "refused:site-no-dnslink")}
			}
			return fail("404 for content this gateway is configured to serve")
		case http.StatusBadRequest:
			if isID {
				cc, err := cid.Decode(c.Root)
				var hash mh.Multihash
				if err == nil {
					hash = cc.Hash()
				} else {
					p, _ := peer.Decode(c.Root)
					hash = mh.Multihash(p)
				}
				codec := uint64(cid.Raw)
				if err == nil {
					codec = cc.Type()
				}
				if c.NS == "ipns" {
					codec = cid.Libp2pKey
				}
				s36, _ := cid.NewCidV1(codec, hash).StringOfBase(mbase.Base36)
				if len(s36) > 63 {
					return kit.Result{Classes: append(classes, "refused:cid-too-long")}
				}
				return fail("400 although the CID fits a DNS label in base36 (%d characters)", len(s36))
			}
			if c.RootKind == "dns" && names[wantName] && inlinedLen(wantName) > 63 && (c.InlineDNSLink || xfproto == "https") {
				return kit.Result{Classes: append(classes, "refused:dnslink-too-long")}
			}
			return fail("400 for a request that can be mapped")
		}
		return fail("neither served nor redirected")
	}

	// ---- the path handed to the next handler must name the same content
	if rec.path == origPath && redirects == 0 {
		// passed through unchanged (old-school gateway behaviour)
		if !sameQuery(rec.query, c.Query) {
			return fail("query changed from %q to %q", c.Query, rec.query)
		}
		switch c.Kind {
		case "subdomain":
			// The content is named by the Host (<root>.<ns>.<known gateway hostname>, port optional, wildcard
			// keys included), the URL path is only the remainder: where the gateway does subdomains for this
			// namespace the host has to be mapped back; forwarding the raw path names no content.
			if c.UseSubdomains && pathAllowed(c.Paths, c.NS) {
				return fail("subdomain host was not mapped back to a content path: next handler saw the raw path %q instead of /%s/%s/%s", rec.path, c.NS, c.Root, c.Rem)
			}
			classes = append(classes, "passthrough:subdomains-not-served")
		case "dnslink-host":
			// Legitimate only if there is nothing to map: the path is a gateway path of this known hostname
			// (equal to, or below, one of its Paths), or DNSLink is off for the host (the entry of a known
			// hostname overrides the global setting) / the host has no record.
			mainKnown := keyMatches(c.GwKey, host)
			switch {
			case mainKnown:
				// (practically unreachable) the DNSLink host happens to be the subdomain gateway's hostname too
			case siteKnown && !siteCovered && !c.Site.NoDNSLink && names[c.Root]:
				return fail("path %q is outside Paths %v of the known hostname and the host has a DNSLink record, yet next handler saw the raw path instead of /ipns/%s%s", rec.path, c.Site.Paths, c.Root, origPath)
			case !siteKnown && !c.GlobalNoDNSLink && names[c.Root]:
				return fail("DNSLink host with a record was not mapped: next handler saw the raw path %q instead of /ipns/%s%s", rec.path, c.Root, origPath)
			}
			if siteCovered {
				classes = append(classes, "passthrough:site-gateway-path")
			}
		}
		return kit.Result{Classes: append(classes, "passthrough", "passthrough:"+c.Kind)}
	}
	parts := strings.SplitN(rec.path, "/", 4)
	if len(parts) < 3 || parts[0] != "" {
		return fail("next handler saw path %q", rec.path)
	}
	gotNS, gotRoot, gotRem := parts[1], parts[2], ""
	if len(parts) == 4 {
		gotRem = parts[3]
	}
	if gotNS != wantNS {
		return fail("namespace %q became %q (path %q)", wantNS, gotNS, rec.path)
	}
	if isID {
		gotID, ok := identity(gotRoot)
		if !ok || gotID != wantID {
			return fail("root %q became %q: not the same multihash", c.Root, gotRoot)
		}
	} else if gotRoot != wantName {
		// A dot-less name with a hyphen and no DNSLink record under either reading is ambiguous by
		// design: the handler documents that it then prefers the un-inlined reading (for the error
		// message); there is no content either way.
		ambiguous := !names[wantName] && !strings.Contains(c.Root, ".") && strings.Contains(c.Root, "-") && gotRoot == gateway.UninlineDNSLink(c.Root) && !names[gotRoot]
		if !ambiguous {
			return fail("DNSLink name %q became %q", wantName, gotRoot)
		}
		classes = append(classes, "dns:ambiguous-unknown")
	}
	if gotRem != c.Rem {
		return fail("remainder %q became %q (path %q)", c.Rem, gotRem, rec.path)
	}
	if !sameQuery(rec.query, c.Query) {
		return fail("query %q became %q", c.Query, rec.query)
	}
	if fragment != c.Fragment {
		return fail("fragment %q became %q", c.Fragment, fragment)
	}
	if isID {
		classes = append(classes, "id")
	}
	if c.Query != "" {
		qc := "query:go-canonical"
		if !canonicalQuery(c.Query) {
			qc = "query:raw-noncanonical"
		}
		if redirects > 0 {
			qc += "-redirected"
		}
		classes = append(classes, qc)
	}
	if c.RootKind == "dns" && names[wantName] {
		classes = append(classes, "dnslink:known")
		if wantName != c.Root {
			classes = append(classes, "dnslink:by-inlined-label")
		}
	}
	if c.Kind == "dnslink-host" {
		classes = append(classes, "dnslink-host:mapped")
		if c.HostPort != "" {
			classes = append(classes, "dnslink-host:mapped-with-port")
		}
		if siteKnown {
			classes = append(classes, "dnslink-host:mapped-known-gateway")
		}
	}
	return kit.Result{NonTrivial: redirects > 0 || (c.Kind == "dnslink-host" && names[wantName]), Classes: classes}
}

var spec = kit.Spec[Case]{
	Prop: "C32", Name: "main",
	Rule:  "gateway.NewHostnameHandler with a recording next handler and a mock backend holding 0-3 DNSLink names; public gateway (plain, with port, wildcard) x UseSubdomains x InlineDNSLink x NoDNSLink x Paths; request = path (/ipfs|/ipns + CIDv0/v1 in 8 bases and 6 codecs, peer IDs in legacy/CIDv1/dag-pb forms, DNS names incl. inlined labels), subdomain Host, or DNSLink Host (also listed in PublicGateways itself: exact, exact:port or wildcard key x Paths x NoDNSLink), Host with or without an explicit port, with remainder (percent-escapes, '?', '#', unicode; on a DNSLink Host also a first segment that merely starts with a gateway path name: /ipfs-docs, /ipfs.html, /ipnsfoo), raw query (0-5 parameters: unsorted and repeated keys, keys without '=', empty parameters, %20 and '+', upper/lower-case and malformed percent escapes, sub-delims, literal ';'), client-side fragment, X-Forwarded-Proto/Host; redirects are followed (<=4) by re-injecting Location; the path reaching next must have the same namespace and multihash / DNSLink name, remainder and byte-identical raw query (also in every Location), the fragment must survive, every Location host label <= 63; a request forwarded with its raw path is accepted only for a path request, a gateway path (equal to or below one of Paths) of a known hostname, or a Host with no usable DNSLink - never for a subdomain Host or for site content of a DNSLink Host with a record; non-trivial = at least one redirect was followed, or a DNSLink Host with a record was mapped to /ipns/<name>/...",
	Quick: 6000, Thorough: 50000,
	Gen: gen, Run: run,
}

func TestProp(t *testing.T) { kit.All(t, spec) }
