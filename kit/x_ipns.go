package kit

// Shared pieces of the IPNS checks (C25, C26, C27, C28): deterministic keys, record
// specifications with their generators, the accessor oracle and a reference protobuf
// (protowire, last-wins) decoder/encoder for the IpnsRecord message.

import (
	"bytes"
	"crypto"
	"crypto/ecdsa"
	"crypto/ed25519"
	"crypto/sha256"
	"encoding/base64"
	"errors"
	"fmt"
	"math"
	"sort"
	"strconv"
	"sync"
	"time"

	"github.com/ipfs/boxo/ipns"
	"github.com/ipfs/boxo/path"
	cid "github.com/ipfs/go-cid"
	ic "github.com/libp2p/go-libp2p/core/crypto"
	"github.com/libp2p/go-libp2p/core/peer"
	mb "github.com/multiformats/go-multibase"
	mh "github.com/multiformats/go-multihash"
	"google.golang.org/protobuf/encoding/protowire"
	"pgregory.net/rapid"
)

// ---------------------------------------------------------------------------
// keys

// IpnsKeySpec names a private key reproducibly. Ed25519 and secp256k1 keys are derived
// from Seed; RSA and ECDSA keys come from the embedded pool (x_ipns_keypool.go), Seed is
// the pool index (mod pool size).
type IpnsKeySpec struct {
	Type string `json:"type"` // ed25519 | secp256k1 | ecdsa | rsa
	Seed uint64 `json:"seed"`
}

// Canon reduces pool indices so that equal keys have equal specs.
func (k IpnsKeySpec) Canon() IpnsKeySpec {
	switch k.Type {
	case "rsa":
		k.Seed %= uint64(len(ipnsRSAPool))
	case "ecdsa":
		k.Seed %= uint64(len(ipnsECDSAPool))
	}
	return k
}

func (k IpnsKeySpec) String() string {
	c := k.Canon()
	return c.Type + ":" + strconv.FormatUint(c.Seed, 10)
}

// Inlinable reports whether the peer ID of this key type embeds the public key.
func (k IpnsKeySpec) Inlinable() bool { return k.Type == "ed25519" || k.Type == "secp256k1" }

// detECDSA is an ECDSA private key whose signatures are deterministic (RFC 6979, Go >= 1.24
// with a nil random source) so that record bytes are a pure function of the case. The
// signature format (ASN.1 DER of r,s over SHA-256 of the message) is the one libp2p uses.
type detECDSA struct {
	*ic.ECDSAPrivateKey
	std *ecdsa.PrivateKey
}

func (d *detECDSA) Sign(data []byte) ([]byte, error) {
	h := sha256.Sum256(data)
	return d.std.Sign(nil, h[:], crypto.SHA256)
}

var ipnsKeyCache sync.Map // canonical spec string -> ic.PrivKey (immutable pool keys only)

// IpnsKey returns the private key named by the spec.
func IpnsKey(k IpnsKeySpec) (ic.PrivKey, error) {
	k = k.Canon()
	switch k.Type {
	case "ed25519":
		seed := sha256.Sum256([]byte("verif-ipns-ed25519:" + strconv.FormatUint(k.Seed, 10)))
		return ic.UnmarshalEd25519PrivateKey(ed25519.NewKeyFromSeed(seed[:]))
	case "secp256k1":
		seed := sha256.Sum256([]byte("verif-ipns-secp256k1:" + strconv.FormatUint(k.Seed, 10)))
		return ic.UnmarshalSecp256k1PrivateKey(seed[:])
	case "rsa", "ecdsa":
		if v, ok := ipnsKeyCache.Load(k.String()); ok {
			return v.(ic.PrivKey), nil
		}
		pool := ipnsRSAPool
		if k.Type == "ecdsa" {
			pool = ipnsECDSAPool
		}
		raw, err := base64.StdEncoding.DecodeString(pool[k.Seed])
		if err != nil {
			return nil, err
		}
		sk, err := ic.UnmarshalPrivateKey(raw)
		if err != nil {
			return nil, err
		}
		if k.Type == "ecdsa" {
			esk, ok := sk.(*ic.ECDSAPrivateKey)
			if !ok {
				return nil, fmt.Errorf("pool key %s is %T", k, sk)
			}
			std, err := ic.PrivKeyToStdKey(sk)
			if err != nil {
				return nil, err
			}
			sk = &detECDSA{ECDSAPrivateKey: esk, std: std.(*ecdsa.PrivateKey)}
		}
		ipnsKeyCache.Store(k.String(), sk)
		return sk, nil
	}
	return nil, fmt.Errorf("unknown key type %q", k.Type)
}

// IpnsNameOf returns the IPNS name of a key.
func IpnsNameOf(sk ic.PrivKey) (ipns.Name, error) {
	pid, err := peer.IDFromPublicKey(sk.GetPublic())
	if err != nil {
		return ipns.Name{}, err
	}
	return ipns.NameFromPeer(pid), nil
}

// IpnsKeySpecs draws a key: all four types, seeds mostly from a small range so that
// independently drawn keys collide.
func IpnsKeySpecs() *rapid.Generator[IpnsKeySpec] {
	return rapid.Custom(func(t *rapid.T) IpnsKeySpec {
		typ := rapid.SampledFrom([]string{"ed25519", "ed25519", "ed25519", "secp256k1", "secp256k1", "ecdsa", "ecdsa", "rsa", "rsa"}).Draw(t, "keytype")
		var seed uint64
		switch typ {
		case "rsa", "ecdsa":
			seed = uint64(rapid.IntRange(0, 3).Draw(t, "keyidx"))
		default:
			if rapid.IntRange(0, 3).Draw(t, "seedclass") == 0 {
				seed = rapid.Uint64().Draw(t, "keyseed")
			} else {
				seed = uint64(rapid.IntRange(0, 3).Draw(t, "keyseed"))
			}
		}
		return IpnsKeySpec{Type: typ, Seed: seed}
	})
}

// IpnsKeyBook is a minimal in-memory peerstore.KeyBook.
type IpnsKeyBook struct{ Keys map[peer.ID]ic.PubKey }

func (b *IpnsKeyBook) PubKey(p peer.ID) ic.PubKey { return b.Keys[p] }
func (b *IpnsKeyBook) AddPubKey(p peer.ID, k ic.PubKey) error {
	if b.Keys == nil {
		b.Keys = map[peer.ID]ic.PubKey{}
	}
	b.Keys[p] = k
	return nil
}
func (b *IpnsKeyBook) PrivKey(peer.ID) ic.PrivKey           { return nil }
func (b *IpnsKeyBook) AddPrivKey(peer.ID, ic.PrivKey) error { return errors.New("not supported") }
func (b *IpnsKeyBook) RemovePeer(p peer.ID)                 { delete(b.Keys, p) }
func (b *IpnsKeyBook) PeersWithKeys() peer.IDSlice {
	var out peer.IDSlice
	for p := range b.Keys {
		out = append(out, p)
	}
	sort.Sort(out)
	return out
}

// ---------------------------------------------------------------------------
// CIDs / names used in value paths and path strings

var (
	ipnsStringsOnce sync.Once
	ipnsCidStrings  []string
	ipnsNameStrings []string
)

// IpnsCidStrings: textual CIDs in several versions / codecs / bases (all valid).
func IpnsCidStrings() []string { ipnsStringsOnce.Do(ipnsInitStrings); return ipnsCidStrings }

// IpnsNameStrings: textual IPNS names (base36 libp2p-key CIDv1, base32 CIDv1, base58 peer IDs).
func IpnsNameStrings() []string { ipnsStringsOnce.Do(ipnsInitStrings); return ipnsNameStrings }

func ipnsInitStrings() {
	for i := 0; i < 3; i++ {
		h, err := mh.Sum([]byte("verif-cid-"+strconv.Itoa(i)), mh.SHA2_256, -1)
		if err != nil {
			panic(err)
		}
		v0 := cid.NewCidV0(h)
		ipnsCidStrings = append(ipnsCidStrings, v0.String())
		for _, codec := range []uint64{cid.Raw, cid.DagProtobuf, cid.DagCBOR} {
			c := cid.NewCidV1(codec, h)
			ipnsCidStrings = append(ipnsCidStrings, c.String())
			if i == 0 {
				for _, base := range []mb.Encoding{mb.Base36, mb.Base58BTC, mb.Base32Upper, mb.Base16, mb.Base64url} {
					s, err := c.StringOfBase(base)
					if err != nil {
						panic(err)
					}
					ipnsCidStrings = append(ipnsCidStrings, s)
				}
			}
		}
	}
	// identity CID and a sha2-512 one
	ipnsCidStrings = append(ipnsCidStrings, "bafkqaaa")
	h512, _ := mh.Sum([]byte("verif-cid-512"), mh.SHA2_512, -1)
	ipnsCidStrings = append(ipnsCidStrings, cid.NewCidV1(cid.Raw, h512).String())

	for _, ks := range []IpnsKeySpec{{"ed25519", 0}, {"ed25519", 1}, {"secp256k1", 0}, {"ecdsa", 0}, {"rsa", 0}} {
		sk, err := IpnsKey(ks)
		if err != nil {
			panic(err)
		}
		n, err := IpnsNameOf(sk)
		if err != nil {
			panic(err)
		}
		ipnsNameStrings = append(ipnsNameStrings, n.String(), n.Peer().String())
		s32, err := n.Cid().StringOfBase(mb.Base32)
		if err != nil {
			panic(err)
		}
		ipnsNameStrings = append(ipnsNameStrings, s32)
	}
}

var ipnsDNSLinks = []string{"example.com", "en.wikipedia-on-ipfs.org", "docs.ipfs.tech", "a.b", "xn--bcher-kva.example", "localhost"}

// IpnsValuePaths generates clean, valid content path strings: /ipfs|/ipld + CID, /ipns +
// name or DNSLink, optional remainder (<= 3 segments from Names()) and trailing slash.
func IpnsValuePaths() *rapid.Generator[string] {
	return rapid.Custom(func(t *rapid.T) string {
		var s string
		switch rapid.IntRange(0, 5).Draw(t, "ns") {
		case 0, 1, 2:
			s = "/ipfs/" + rapid.SampledFrom(IpnsCidStrings()).Draw(t, "cid")
		case 3:
			s = "/ipld/" + rapid.SampledFrom(IpnsCidStrings()).Draw(t, "cid")
		case 4:
			s = "/ipns/" + rapid.SampledFrom(IpnsNameStrings()).Draw(t, "name")
		default:
			s = "/ipns/" + rapid.SampledFrom(ipnsDNSLinks).Draw(t, "dns")
		}
		n := rapid.SampledFrom([]int{0, 0, 0, 1, 1, 2, 3}).Draw(t, "nrem")
		for i := 0; i < n; i++ {
			s += "/" + Names().Draw(t, "seg")
		}
		if rapid.IntRange(0, 4).Draw(t, "trail") == 0 {
			s += "/"
		}
		return s
	})
}

// ---------------------------------------------------------------------------
// record specifications

// IpnsMeta is one metadata entry. Kind selects the Go type handed to WithMetadata:
// valid: string | bytes | int64 | int | bool; invalid (must be rejected): nil | float |
// uint64 | int32 | map | list.
type IpnsMeta struct {
	Key  string `json:"key"`
	Kind string `json:"kind"`
	S    string `json:"s,omitempty"`
	B    []byte `json:"b,omitempty"`
	I    int64  `json:"i,omitempty"`
	T    bool   `json:"t,omitempty"`
}

var ipnsReserved = map[string]bool{"Value": true, "Validity": true, "ValidityType": true, "Sequence": true, "TTL": true}

// Valid reports whether the entry is acceptable to WithMetadata by its documentation.
func (m IpnsMeta) Valid() bool {
	if m.Key == "" || ipnsReserved[m.Key] {
		return false
	}
	switch m.Kind {
	case "string", "bytes", "int64", "int", "bool":
		return true
	}
	return false
}

// Any returns the Go value handed to WithMetadata.
func (m IpnsMeta) Any() any {
	switch m.Kind {
	case "string":
		return m.S
	case "bytes":
		return m.B
	case "int64":
		return m.I
	case "int":
		return int(m.I)
	case "bool":
		return m.T
	case "nil":
		return nil
	case "float":
		return float64(m.I) + 0.5
	case "uint64":
		return uint64(m.I)
	case "int32":
		return int32(m.I)
	case "map":
		return map[string]any{m.S: m.I}
	case "list":
		return []any{m.S, m.I}
	}
	return struct{}{}
}

// IpnsRecSpec is everything NewRecord needs, JSON-serialisable.
type IpnsRecSpec struct {
	Key   IpnsKeySpec `json:"key"`
	Value string      `json:"value"`
	Seq   uint64      `json:"seq"`
	// EOL: if EOLRel, EOLSec is an offset in seconds from the wall clock at run time
	// (|offset| >= 1 h so jitter cannot flip the verdict), else an absolute unix time.
	EOLRel  bool       `json:"eol_rel"`
	EOLSec  int64      `json:"eol_sec"`
	EOLNsec int64      `json:"eol_nsec"`
	TTL     int64      `json:"ttl"` // nanoseconds
	Meta    []IpnsMeta `json:"meta"`
	V1      int        `json:"v1"`    // 0 default, 1 WithV1Compatibility(true), 2 (false)
	Embed   int        `json:"embed"` // 0 default, 1 WithPublicKey(true), 2 (false)
}

// IpnsMaxEOL is 9999-12-31T23:59:59Z.
const IpnsMaxEOL int64 = 253402300799

func (r IpnsRecSpec) EOL(now time.Time) time.Time {
	if r.EOLRel {
		return time.Unix(now.Unix()+r.EOLSec, r.EOLNsec).UTC()
	}
	return time.Unix(r.EOLSec, r.EOLNsec).UTC()
}

// V1Compat reports whether the record carries the legacy fields.
func (r IpnsRecSpec) V1Compat() bool { return r.V1 != 2 }

// Embedded reports whether the record carries the public key.
func (r IpnsRecSpec) Embedded() bool {
	switch r.Embed {
	case 1:
		return true
	case 2:
		return false
	}
	return !r.Key.Inlinable()
}

// MetaValid reports whether all metadata entries are valid.
func (r IpnsRecSpec) MetaValid() bool {
	for _, m := range r.Meta {
		if !m.Valid() {
			return false
		}
	}
	return true
}

func (r IpnsRecSpec) Options() []ipns.Option {
	var o []ipns.Option
	switch r.V1 {
	case 1:
		o = append(o, ipns.WithV1Compatibility(true))
	case 2:
		o = append(o, ipns.WithV1Compatibility(false))
	}
	switch r.Embed {
	case 1:
		o = append(o, ipns.WithPublicKey(true))
	case 2:
		o = append(o, ipns.WithPublicKey(false))
	}
	if r.Meta != nil {
		m := map[string]any{}
		for _, e := range r.Meta {
			m[e.Key] = e.Any()
		}
		o = append(o, ipns.WithMetadata(m))
	}
	return o
}

// IpnsBuilt is a record created from a spec.
type IpnsBuilt struct {
	Spec  IpnsRecSpec
	Key   ic.PrivKey
	Name  ipns.Name
	Path  path.Path
	EOL   time.Time
	Rec   *ipns.Record
	Bytes []byte // MarshalRecord(Rec)
}

// ErrIpnsHarness marks failures of the harness' own preconditions.
var ErrIpnsHarness = errors.New("harness precondition")

// Build creates the record with ipns.NewRecord. A NewRecord error is returned as is;
// harness-side problems wrap ErrIpnsHarness.
func (r IpnsRecSpec) Build(now time.Time) (*IpnsBuilt, error) {
	sk, err := IpnsKey(r.Key)
	if err != nil {
		return nil, fmt.Errorf("%w: key: %v", ErrIpnsHarness, err)
	}
	name, err := IpnsNameOf(sk)
	if err != nil {
		return nil, fmt.Errorf("%w: name: %v", ErrIpnsHarness, err)
	}
	p, err := path.NewPath(r.Value)
	if err != nil {
		return nil, fmt.Errorf("%w: value %q is not a path: %v", ErrIpnsHarness, r.Value, err)
	}
	eol := r.EOL(now)
	rec, err := ipns.NewRecord(sk, p, r.Seq, eol, time.Duration(r.TTL), r.Options()...)
	if err != nil {
		return nil, err
	}
	b, err := ipns.MarshalRecord(rec)
	if err != nil {
		return nil, fmt.Errorf("MarshalRecord: %w", err)
	}
	return &IpnsBuilt{Spec: r, Key: sk, Name: name, Path: p, EOL: eol, Rec: rec, Bytes: b}, nil
}

// IpnsCheckAccessors checks that every accessor of rec returns what the spec's inputs
// say (value path, EOL to the nanosecond, validity type, sequence, TTL, metadata).
func IpnsCheckAccessors(rec *ipns.Record, b *IpnsBuilt) error {
	v, err := rec.Value()
	if err != nil {
		return fmt.Errorf("Value(): %v", err)
	}
	if v.String() != b.Path.String() {
		return fmt.Errorf("Value() = %q, signed %q", v.String(), b.Path.String())
	}
	if v.Namespace() != b.Path.Namespace() {
		return fmt.Errorf("Value().Namespace() = %q, signed %q", v.Namespace(), b.Path.Namespace())
	}
	vt, err := rec.ValidityType()
	if err != nil {
		return fmt.Errorf("ValidityType(): %v", err)
	}
	if vt != ipns.ValidityEOL {
		return fmt.Errorf("ValidityType() = %d, signed EOL(0)", vt)
	}
	eol, err := rec.Validity()
	if err != nil {
		return fmt.Errorf("Validity(): %v", err)
	}
	if !eol.Equal(b.EOL) {
		return fmt.Errorf("Validity() = %s, signed %s", eol.Format(time.RFC3339Nano), b.EOL.Format(time.RFC3339Nano))
	}
	seq, err := rec.Sequence()
	if err != nil {
		return fmt.Errorf("Sequence(): %v", err)
	}
	if seq != b.Spec.Seq {
		return fmt.Errorf("Sequence() = %d, signed %d", seq, b.Spec.Seq)
	}
	ttl, err := rec.TTL()
	if err != nil {
		return fmt.Errorf("TTL(): %v", err)
	}
	if int64(ttl) != b.Spec.TTL {
		return fmt.Errorf("TTL() = %d, signed %d", int64(ttl), b.Spec.TTL)
	}
	// metadata
	want := map[string]IpnsMeta{}
	for _, m := range b.Spec.Meta {
		want[m.Key] = m
	}
	for k, m := range want {
		if !rec.MetadataExists(k) {
			return fmt.Errorf("MetadataExists(%q) = false, key was signed", k)
		}
		mv, err := rec.Metadata(k)
		if err != nil {
			return fmt.Errorf("Metadata(%q): %v", k, err)
		}
		if err := ipnsMetaEqual(mv, m); err != nil {
			return fmt.Errorf("Metadata(%q): %v", k, err)
		}
	}
	seen := map[string]bool{}
	for k, mv := range rec.MetadataEntries() {
		m, ok := want[k]
		if !ok {
			return fmt.Errorf("MetadataEntries yields key %q that was not signed", k)
		}
		if seen[k] {
			return fmt.Errorf("MetadataEntries yields key %q twice", k)
		}
		seen[k] = true
		if err := ipnsMetaEqual(mv, m); err != nil {
			return fmt.Errorf("MetadataEntries[%q]: %v", k, err)
		}
	}
	if len(seen) != len(want) {
		return fmt.Errorf("MetadataEntries yields %d keys, %d were signed", len(seen), len(want))
	}
	for k := range ipnsReserved {
		if rec.MetadataExists(k) {
			return fmt.Errorf("MetadataExists(%q) = true for a reserved key", k)
		}
	}
	return nil
}

func ipnsMetaEqual(mv ipns.MetadataValue, m IpnsMeta) error {
	switch m.Kind {
	case "string":
		if mv.Kind() != ipns.MetadataKindString {
			return fmt.Errorf("kind %v, signed string", mv.Kind())
		}
		s, err := mv.AsString()
		if err != nil || s != m.S {
			return fmt.Errorf("AsString = %q, %v; signed %q", s, err, m.S)
		}
	case "bytes":
		if mv.Kind() != ipns.MetadataKindBytes {
			return fmt.Errorf("kind %v, signed bytes", mv.Kind())
		}
		b, err := mv.AsBytes()
		if err != nil || !bytes.Equal(b, m.B) {
			return fmt.Errorf("AsBytes = %x, %v; signed %x", b, err, m.B)
		}
	case "int64", "int":
		if mv.Kind() != ipns.MetadataKindInt {
			return fmt.Errorf("kind %v, signed int", mv.Kind())
		}
		i, err := mv.AsInt()
		if err != nil || i != m.I {
			return fmt.Errorf("AsInt = %d, %v; signed %d", i, err, m.I)
		}
	case "bool":
		if mv.Kind() != ipns.MetadataKindBool {
			return fmt.Errorf("kind %v, signed bool", mv.Kind())
		}
		t, err := mv.AsBool()
		if err != nil || t != m.T {
			return fmt.Errorf("AsBool = %v, %v; signed %v", t, err, m.T)
		}
	default:
		return fmt.Errorf("harness: kind %q is not a valid metadata kind", m.Kind)
	}
	return nil
}

// ---------------------------------------------------------------------------
// generators for record specs

// IpnsSeqs: sequence numbers over the whole uint64 range with the boundary classes.
func IpnsSeqs() *rapid.Generator[uint64] {
	return rapid.OneOf(
		rapid.SampledFrom([]uint64{0, 1, 2, math.MaxInt64 - 1, math.MaxInt64, 1 << 63, 1<<63 + 1, math.MaxUint64 - 1, math.MaxUint64, 23, 24, 255, 256, 65535, 65536, 1<<32 - 1, 1 << 32}),
		rapid.Uint64(),
		rapid.Uint64Range(1<<63, math.MaxUint64),
		rapid.Uint64Range(0, 1000),
	)
}

// IpnsTTLs: non-negative TTLs in nanoseconds across duration classes.
func IpnsTTLs() *rapid.Generator[int64] {
	return rapid.OneOf(
		rapid.SampledFrom([]int64{0, 1, int64(time.Microsecond), int64(time.Second), int64(5 * time.Minute), int64(time.Hour), int64(48 * time.Hour), math.MaxInt64 - 1, math.MaxInt64}),
		rapid.Int64Range(0, math.MaxInt64),
		rapid.Int64Range(0, int64(time.Hour)),
	)
}

// IpnsFutureEOL draws a future expiry: relative (now + 1 h … + 100 y) or absolute
// (2100 … 9999-12-31T23:59:59.999999999Z), with nanoseconds.
func IpnsFutureEOL(t *rapid.T) (rel bool, sec, nsec int64) {
	nsec = rapid.OneOf(rapid.SampledFrom([]int64{0, 1, 500000000, 999999999, 120000000, 1000}), rapid.Int64Range(0, 999999999)).Draw(t, "eolnsec")
	switch rapid.IntRange(0, 5).Draw(t, "eolclass") {
	case 0:
		return true, 3600, nsec
	case 1:
		return true, rapid.Int64Range(3600, 100*365*86400).Draw(t, "eoloff"), nsec
	case 2:
		return true, int64(48 * 3600), nsec
	case 3:
		return false, IpnsMaxEOL, nsec
	case 4:
		return false, rapid.SampledFrom([]int64{4102444800, 4102444801, 32503680000, IpnsMaxEOL - 1}).Draw(t, "eolabs"), nsec
	default:
		return false, rapid.Int64Range(4102444800, IpnsMaxEOL).Draw(t, "eolabs"), nsec
	}
}

// IpnsPastEOL draws an expiry at least one hour in the past.
func IpnsPastEOL(t *rapid.T) (rel bool, sec, nsec int64) {
	nsec = rapid.Int64Range(0, 999999999).Draw(t, "eolnsec")
	switch rapid.IntRange(0, 2).Draw(t, "pastclass") {
	case 0:
		return true, -3600, nsec
	case 1:
		return true, -rapid.Int64Range(3600, 20*365*86400).Draw(t, "eoloff"), nsec
	default:
		return false, rapid.SampledFrom([]int64{0, 1, 978307200, 1577836800}).Draw(t, "eolabs"), nsec
	}
}

var ipnsMetaKeys = []string{"_a", "_b", "_verif", "x", "_", "_Value", "value", "ttl", "_日本", "_ü", "a b", "_a/b", "_long_long_long_long_long_long_key", "Z", "_0"}

// IpnsMetaValid draws a valid metadata entry.
func IpnsMetaValid(t *rapid.T) IpnsMeta {
	m := IpnsMeta{}
	if rapid.IntRange(0, 3).Draw(t, "mkeyclass") == 0 {
		m.Key = rapid.StringMatching(`_?[a-zA-Z0-9_.-]{1,12}`).Filter(func(s string) bool { return !ipnsReserved[s] }).Draw(t, "mkey")
	} else {
		m.Key = rapid.SampledFrom(ipnsMetaKeys).Draw(t, "mkey")
	}
	m.Kind = rapid.SampledFrom([]string{"string", "bytes", "int64", "int", "bool"}).Draw(t, "mkind")
	switch m.Kind {
	case "string":
		m.S = rapid.OneOf(rapid.SampledFrom([]string{"", "a", "日本語", "with \"quotes\"", "/ipfs/bafkqaaa"}), rapid.StringN(0, 40, 120)).Draw(t, "mstr")
	case "bytes":
		m.B = Bytes(200).Draw(t, "mbytes")
		if len(m.B) == 0 {
			m.B = nil
		}
	case "int64", "int":
		m.I = rapid.OneOf(rapid.SampledFrom([]int64{0, 1, -1, 23, 24, -24, -25, 255, 256, math.MaxInt64, math.MinInt64, 1 << 32, -(1 << 32)}), rapid.Int64()).Draw(t, "mint")
	case "bool":
		m.T = rapid.Bool().Draw(t, "mbool")
	}
	return m
}

// IpnsMetaInvalid draws an entry that WithMetadata documents as rejected: empty key,
// reserved key, or unsupported value type.
func IpnsMetaInvalid(t *rapid.T) IpnsMeta {
	m := IpnsMetaValid(t)
	switch rapid.IntRange(0, 2).Draw(t, "badclass") {
	case 0:
		m.Key = ""
	case 1:
		m.Key = rapid.SampledFrom([]string{"Value", "Validity", "ValidityType", "Sequence", "TTL"}).Draw(t, "reserved")
	default:
		m.Kind = rapid.SampledFrom([]string{"nil", "float", "uint64", "int32", "map", "list"}).Draw(t, "badkind")
		m.S = "k"
	}
	return m
}

// IpnsMetaList draws 0..max valid entries with distinct keys; nil when empty and !forceMap.
func IpnsMetaList(t *rapid.T, max int) []IpnsMeta {
	n := rapid.SampledFrom([]int{0, 0, 0, 1, 1, 2, 3, max}).Draw(t, "nmeta")
	var out []IpnsMeta
	seen := map[string]bool{}
	for i := 0; i < n; i++ {
		m := IpnsMetaValid(t)
		if seen[m.Key] {
			continue
		}
		seen[m.Key] = true
		out = append(out, m)
	}
	if len(out) == 0 && rapid.Bool().Draw(t, "emptymap") {
		out = []IpnsMeta{} // WithMetadata(empty map)
	}
	return out
}

// IpnsRecSpecs draws a valid, unexpired record spec (all option combinations).
func IpnsRecSpecs() *rapid.Generator[IpnsRecSpec] {
	return rapid.Custom(func(t *rapid.T) IpnsRecSpec {
		r := IpnsRecSpec{}
		r.Key = IpnsKeySpecs().Draw(t, "key")
		r.Value = IpnsValuePaths().Draw(t, "value")
		r.Seq = IpnsSeqs().Draw(t, "seq")
		r.EOLRel, r.EOLSec, r.EOLNsec = IpnsFutureEOL(t)
		r.TTL = IpnsTTLs().Draw(t, "ttl")
		r.Meta = IpnsMetaList(t, 5)
		r.V1 = rapid.SampledFrom([]int{0, 0, 1, 2, 2}).Draw(t, "v1")
		r.Embed = rapid.SampledFrom([]int{0, 0, 1, 2}).Draw(t, "embed")
		return r
	})
}

// ---------------------------------------------------------------------------
// reference protobuf (protowire) layer

// PBField is one top-level protobuf field occurrence.
type PBField struct {
	Num int32  `json:"num"`
	Typ int8   `json:"typ"`         // protowire.Type: 0 varint, 1 fixed64, 2 bytes, 5 fixed32 (3 = whole group, raw)
	V   uint64 `json:"v,omitempty"` // varint / fixed value
	B   []byte `json:"b,omitempty"` // bytes payload (or raw group body incl. end tag)
}

// PBParse splits a message into its top-level fields (no interpretation).
func PBParse(b []byte) ([]PBField, error) {
	var out []PBField
	for len(b) > 0 {
		num, typ, n := protowire.ConsumeTag(b)
		if n < 0 {
			return nil, protowire.ParseError(n)
		}
		b = b[n:]
		f := PBField{Num: int32(num), Typ: int8(typ)}
		switch typ {
		case protowire.VarintType:
			v, n := protowire.ConsumeVarint(b)
			if n < 0 {
				return nil, protowire.ParseError(n)
			}
			f.V = v
			b = b[n:]
		case protowire.Fixed32Type:
			v, n := protowire.ConsumeFixed32(b)
			if n < 0 {
				return nil, protowire.ParseError(n)
			}
			f.V = uint64(v)
			b = b[n:]
		case protowire.Fixed64Type:
			v, n := protowire.ConsumeFixed64(b)
			if n < 0 {
				return nil, protowire.ParseError(n)
			}
			f.V = v
			b = b[n:]
		case protowire.BytesType:
			v, n := protowire.ConsumeBytes(b)
			if n < 0 {
				return nil, protowire.ParseError(n)
			}
			f.B = append([]byte{}, v...)
			b = b[n:]
		case protowire.StartGroupType:
			n := protowire.ConsumeFieldValue(num, typ, b)
			if n < 0 {
				return nil, protowire.ParseError(n)
			}
			f.B = append([]byte{}, b[:n]...)
			b = b[n:]
		default:
			return nil, fmt.Errorf("unexpected wire type %d", typ)
		}
		out = append(out, f)
	}
	return out, nil
}

// PBEncode serialises fields in order.
func PBEncode(fs []PBField) []byte {
	var b []byte
	for _, f := range fs {
		b = protowire.AppendTag(b, protowire.Number(f.Num), protowire.Type(f.Typ))
		switch protowire.Type(f.Typ) {
		case protowire.VarintType:
			b = protowire.AppendVarint(b, f.V)
		case protowire.Fixed32Type:
			b = protowire.AppendFixed32(b, uint32(f.V))
		case protowire.Fixed64Type:
			b = protowire.AppendFixed64(b, f.V)
		case protowire.BytesType:
			b = protowire.AppendBytes(b, f.B)
		case protowire.StartGroupType:
			b = append(b, f.B...)
		}
	}
	return b
}

// IpnsPB is the effective (last occurrence wins, wrong wire type ignored) content of an
// IpnsRecord message. nil slices / false flags mean "absent".
type IpnsPB struct {
	Value, SigV1, Validity, PubKey, SigV2, Data []byte
	HasValidityType, HasSequence, HasTTL        bool
	ValidityType                                int32
	Sequence, TTL                               uint64
}

// IpnsFieldIsBytes tells the declared wire type of the IpnsRecord fields 1..9.
func IpnsFieldIsBytes(num int32) bool {
	switch num {
	case 1, 2, 4, 7, 8, 9:
		return true
	}
	return false
}

// IpnsEffective computes the effective message content.
func IpnsEffective(fs []PBField) IpnsPB {
	var p IpnsPB
	for _, f := range fs {
		if f.Num < 1 || f.Num > 9 {
			continue
		}
		if IpnsFieldIsBytes(f.Num) {
			if protowire.Type(f.Typ) != protowire.BytesType {
				continue
			}
			v := f.B
			if v == nil {
				v = []byte{}
			}
			switch f.Num {
			case 1:
				p.Value = v
			case 2:
				p.SigV1 = v
			case 4:
				p.Validity = v
			case 7:
				p.PubKey = v
			case 8:
				p.SigV2 = v
			case 9:
				p.Data = v
			}
			continue
		}
		if protowire.Type(f.Typ) != protowire.VarintType {
			continue
		}
		switch f.Num {
		case 3:
			p.HasValidityType, p.ValidityType = true, int32(f.V)
		case 5:
			p.HasSequence, p.Sequence = true, f.V
		case 6:
			p.HasTTL, p.TTL = true, f.V
		}
	}
	return p
}
