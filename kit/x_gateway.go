package kit

// Shared by the gateway checks (C30, C31): deterministic file data, UnixFS files built
// with the real importers from a small JSON-friendly spec, and an in-memory block service.

import (
	"bytes"
	"context"
	"time"

	"github.com/ipfs/boxo/blockservice"
	"github.com/ipfs/boxo/blockstore"
	chunker "github.com/ipfs/boxo/chunker"
	"github.com/ipfs/boxo/exchange/offline"
	"github.com/ipfs/boxo/ipld/merkledag"
	"github.com/ipfs/boxo/ipld/unixfs/importer/balanced"
	ihelpers "github.com/ipfs/boxo/ipld/unixfs/importer/helpers"
	"github.com/ipfs/boxo/ipld/unixfs/importer/trickle"
	cid "github.com/ipfs/go-cid"
	ds "github.com/ipfs/go-datastore"
	dssync "github.com/ipfs/go-datastore/sync"
	format "github.com/ipfs/go-ipld-format"
	mh "github.com/multiformats/go-multihash"
	"pgregory.net/rapid"
)

// GwFileSpec describes one UnixFS file: its content (derived from a seed, so that cases
// stay small) and the importer parameters.
type GwFileSpec struct {
	Size      int    `json:"size"`
	Seed      uint64 `json:"seed"`
	Pattern   int    `json:"pattern"` // 0: (i+seed)%251 (position dependent, readable), 1: xorshift stream, 2: constant
	Chunk     int    `json:"chunk"`   // fixed-size chunker
	MaxLinks  int    `json:"max_links"`
	Trickle   bool   `json:"trickle"`
	RawLeaves bool   `json:"raw_leaves"`
	CidV1     bool   `json:"cid_v1"`
	Sha512    bool   `json:"sha512"` // only with CidV1
	Mtime     int64  `json:"mtime"`  // unix seconds, 0 = none
}

// Data returns the file content. Patterns 0 and 1 are position dependent, so a slice taken at
// a wrong offset differs from the right one (up to the period 251 of pattern 0). GenGwFile
// draws only those two; pattern 2 is for checks that want duplicate blocks.
func (f GwFileSpec) Data() []byte {
	b := make([]byte, f.Size)
	switch f.Pattern {
	case 0:
		for i := range b {
			b[i] = byte((uint64(i) + f.Seed) % 251)
		}
	case 2: // constant: every chunk is the same block (duplicate blocks inside one file)
		for i := range b {
			b[i] = byte(f.Seed)
		}
	default:
		s := f.Seed | 1
		for i := range b {
			s ^= s << 13
			s ^= s >> 7
			s ^= s << 17
			b[i] = byte(s >> 24)
		}
	}
	return b
}

// NumChunks is the number of leaf chunks of the file.
func (f GwFileSpec) NumChunks() int {
	if f.Size == 0 {
		return 0
	}
	return (f.Size + f.Chunk - 1) / f.Chunk
}

// GenGwFile draws a file spec with 0..maxSize bytes. Chunk sizes and widths are small so that
// multi-level DAGs appear with a few hundred bytes; sizes near multiples of the chunk size
// and of chunk*width are frequent.
func GenGwFile(t *rapid.T, maxSize int) GwFileSpec {
	f := GwFileSpec{}
	f.MaxLinks = rapid.SampledFrom([]int{2, 2, 3, 4, 8, 174}).Draw(t, "max_links")
	switch rapid.IntRange(0, 5).Draw(t, "chunkclass") {
	case 0:
		f.Chunk = rapid.IntRange(1, 4).Draw(t, "chunk")
	case 1, 2, 3:
		f.Chunk = rapid.IntRange(5, 64).Draw(t, "chunk")
	case 4:
		f.Chunk = rapid.IntRange(65, 4096).Draw(t, "chunk")
	default:
		f.Chunk = rapid.SampledFrom([]int{1024, 4096, 65536, 262144}).Draw(t, "chunk")
	}
	// keep the number of leaves bounded (each leaf is a block)
	maxLeaves := Scale(300, 3000)
	limit := maxSize
	if f.Chunk*maxLeaves < limit {
		limit = f.Chunk * maxLeaves
	}
	switch rapid.IntRange(0, 9).Draw(t, "sizeclass") {
	case 0:
		f.Size = 0
	case 1:
		f.Size = rapid.IntRange(1, 3).Draw(t, "size")
	case 2, 3:
		// around a multiple of the chunk size
		k := rapid.IntRange(1, 12).Draw(t, "k")
		f.Size = k*f.Chunk + rapid.IntRange(-1, 1).Draw(t, "d")
	case 4:
		// around a full layer
		k := rapid.IntRange(1, 3).Draw(t, "k")
		ml := f.MaxLinks
		if ml > 8 {
			ml = 8
		}
		n := f.Chunk
		for i := 0; i < k; i++ {
			n *= ml
		}
		f.Size = n + rapid.IntRange(-1, 1).Draw(t, "d")
	case 5, 6, 7:
		m := limit
		if m > 600 {
			m = 600
		}
		f.Size = rapid.IntRange(0, m).Draw(t, "size")
	default:
		f.Size = rapid.IntRange(0, limit).Draw(t, "size")
	}
	if f.Size < 0 {
		f.Size = 0
	}
	if f.Size > limit {
		f.Size = limit
	}
	f.Seed = rapid.Uint64Range(0, 1<<20).Draw(t, "seed")
	f.Pattern = rapid.IntRange(0, 1).Draw(t, "pattern")
	f.Trickle = rapid.Bool().Draw(t, "trickle")
	f.RawLeaves = rapid.Bool().Draw(t, "raw_leaves")
	f.CidV1 = rapid.Bool().Draw(t, "cid_v1")
	if f.CidV1 {
		f.Sha512 = rapid.IntRange(0, 4).Draw(t, "sha512") == 0
	}
	if rapid.IntRange(0, 5).Draw(t, "has_mtime") == 0 {
		f.Mtime = rapid.Int64Range(1, 1<<31).Draw(t, "mtime")
	}
	return f
}

// GwStore is an in-memory block service plus DAG service.
type GwStore struct {
	BS   blockstore.Blockstore
	BSvc blockservice.BlockService
	DAG  format.DAGService
}

func NewGwStore() *GwStore {
	bs := blockstore.NewBlockstore(dssync.MutexWrap(ds.NewMapDatastore()))
	bsvc := blockservice.New(bs, offline.Exchange(bs))
	return &GwStore{BS: bs, BSvc: bsvc, DAG: merkledag.NewDAGService(bsvc)}
}

// CidBuilder returns the CID builder selected by the spec.
func (f GwFileSpec) CidBuilder() cid.Builder {
	if !f.CidV1 {
		return merkledag.V0CidPrefix()
	}
	p := merkledag.V1CidPrefix()
	if f.Sha512 {
		p.MhType = mh.SHA2_512
		p.MhLength = 64
	}
	return p
}

// Build imports the file with the real importer and returns its root node.
func (f GwFileSpec) Build(ctx context.Context, dserv format.DAGService) (format.Node, error) {
	params := ihelpers.DagBuilderParams{
		Maxlinks:   f.MaxLinks,
		RawLeaves:  f.RawLeaves,
		CidBuilder: f.CidBuilder(),
		Dagserv:    dserv,
	}
	if f.Mtime != 0 {
		params.FileModTime = time.Unix(f.Mtime, 0)
	}
	db, err := params.New(chunker.NewSizeSplitter(bytes.NewReader(f.Data()), int64(f.Chunk)))
	if err != nil {
		return nil, err
	}
	if f.Trickle {
		return trickle.Layout(db)
	}
	return balanced.Layout(db)
}
