package kit

// Block pools for the blockstore properties (C01, C02): a small set of honest blocks
// with many multihash collisions between CID forms (aliases), identity CIDs and the
// empty block. Everything is plain data so that a case replays from JSON.

import (
	blocks "github.com/ipfs/go-block-format"
	cid "github.com/ipfs/go-cid"
	mh "github.com/multiformats/go-multihash"
	"pgregory.net/rapid"
)

// PoolBlock is one honest block of a pool: the CID is computed from Data under Prefix.
type PoolBlock struct {
	Data   []byte     `json:"data"`
	Prefix PrefixSpec `json:"prefix"`
}

// Cid returns the base CID of the pool block.
func (p PoolBlock) Cid() cid.Cid {
	c, err := p.Prefix.Prefix().Sum(p.Data)
	if err != nil {
		panic(err)
	}
	return c
}

// Forms returns the base CID followed by all alias CIDs that share its multihash
// (CIDv1-raw, CIDv1-dag-pb and, for sha2-256, CIDv0). Always at least two entries.
func (p PoolBlock) Forms() []cid.Cid {
	c := p.Cid()
	return append([]cid.Cid{c}, AliasCids(c)...)
}

// Form returns form i (mod number of forms) of the block's CID.
func (p PoolBlock) Form(i int) cid.Cid {
	f := p.Forms()
	if i < 0 {
		i = -i
	}
	return f[i%len(f)]
}

// BlockAs builds the block with the CID in form i.
func (p PoolBlock) BlockAs(i int) blocks.Block {
	b, err := blocks.NewBlockWithCid(p.Data, p.Form(i))
	if err != nil {
		panic(err)
	}
	return b
}

// IsIdentity reports whether the multihash of c is an identity hash.
func IsIdentity(c cid.Cid) (bool, []byte) {
	d, err := mh.Decode(c.Hash())
	if err != nil || d.Code != mh.IDENTITY {
		return false, nil
	}
	return true, d.Digest
}

// GenPool draws n in [min,max] honest blocks over a few distinct data values (always
// including the empty byte string) so that equal data under different hash functions
// and equal multihashes under different CID versions/codecs are frequent. With
// withIdentity about a quarter of the blocks use the identity hash (data <= 64 bytes).
func GenPool(t *rapid.T, min, max int, withIdentity bool) []PoolBlock {
	nd := rapid.IntRange(2, 5).Draw(t, "ndata")
	datas := [][]byte{{}}
	for len(datas) < nd {
		datas = append(datas, Bytes(96).Draw(t, "data"))
	}
	n := rapid.IntRange(min, max).Draw(t, "npool")
	pool := make([]PoolBlock, 0, n)
	for i := 0; i < n; i++ {
		d := datas[rapid.IntRange(0, len(datas)-1).Draw(t, "dataidx")]
		var p PrefixSpec
		if withIdentity && rapid.IntRange(0, 3).Draw(t, "ident") == 0 {
			codec := rapid.SampledFrom([]uint64{cid.Raw, cid.DagProtobuf, cid.DagCBOR}).Draw(t, "idcodec")
			p = PrefixSpec{1, codec, mh.IDENTITY, -1}
			if len(d) > 64 {
				d = d[:64]
			}
		} else {
			p = Prefixes(false).Draw(t, "prefix")
		}
		pool = append(pool, PoolBlock{Data: d, Prefix: p})
	}
	return pool
}
