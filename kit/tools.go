package kit

import (
	_ "github.com/anishathalye/porcupine"
)
