package kit
