// Package kit is the shared harness layer of the /verif property checks.
//
// A property is a Spec: a rapid generator producing a JSON-serialisable Case and a
// pure run function that executes the case against boxo and returns a Result.
// kit drives it with rapid, records statistics for the evidence file, captures the
// shrunk failing case as plain JSON (replayable without the library) and
// implements the known-findings protocol.
package kit

import (
	"encoding/json"
	"flag"
	"fmt"
	"hash/fnv"
	"os"
	"path/filepath"
	"runtime"
	"runtime/debug"
	"sort"
	"strconv"
	"strings"
	"sync"
	"testing"
	"time"

	"pgregory.net/rapid"
)

// Result is the verdict of one case.
type Result struct {
	// Err != nil: the property is violated on this case.
	Err error
	// Known names a known-finding signature (key in known_findings.json) that this
	// failure matches exactly. If that key is listed as "open" for the property the
	// case is counted as excluded instead of failing. Ignored when Err == nil.
	Known string
	// NonTrivial: the case is non-trivial by the property's stated rule.
	NonTrivial bool
	// Classes label the case for the class histogram.
	Classes []string
}

// Fail builds a failing Result.
func Fail(format string, a ...any) Result { return Result{Err: fmt.Errorf(format, a...)} }

// Spec describes one generated check.
type Spec[C any] struct {
	Prop string // property id, e.g. "C24"
	Name string // sub-check name (used for files); default "main"
	Rule string // how cases are generated and what is non-trivial
	// Quick / Thorough: number of rapid cases per process in each tier.
	Quick, Thorough int
	Gen             func(t *rapid.T) C
	Run             func(c C) Result
	// Journal writes the case to out/<prop>.<name>.<shard>.current.json before running it
	// (for properties whose SUT can kill the process).
	Journal bool
	// Sample optionally maps a case to a smaller value for the evidence samples.
	Sample func(c C) any
	// HangTimeout > 0: a case whose Run has not returned after this long, while the
	// goroutine running it is executing (or blocked) inside github.com/ipfs/boxo, is
	// reported as a property failure ("does not terminate"). It must be several orders of
	// magnitude above the normal case duration, so that machine load cannot trigger it.
	// If the stuck goroutine is not inside boxo the process exits 3 (inconclusive).
	HangTimeout time.Duration
}

func (s *Spec[C]) name() string {
	if s.Name == "" {
		return "main"
	}
	return s.Name
}

// ---------------------------------------------------------------------------
// environment

func Root() string {
	if r := os.Getenv("VERIF_ROOT"); r != "" {
		return r
	}
	// test binaries run with cwd = /verif/props/<id>
	wd, _ := os.Getwd()
	for d := wd; d != "/"; d = filepath.Dir(d) {
		if _, err := os.Stat(filepath.Join(d, "properties.jsonl")); err == nil {
			return d
		}
	}
	return "/verif"
}

func Tier() string {
	if t := os.Getenv("VERIF_TIER"); t == "thorough" {
		return "thorough"
	}
	return "quick"
}

func Shard() string {
	if s := os.Getenv("VERIF_SHARD"); s != "" {
		return s
	}
	return "0"
}

// Scale returns q in the quick tier and th in the thorough tier.
func Scale(q, th int) int {
	if Tier() == "thorough" {
		return th
	}
	return q
}

func outDir() string {
	if d := os.Getenv("VERIF_OUT"); d != "" {
		return d
	}
	return filepath.Join(Root(), "out")
}

// ---------------------------------------------------------------------------
// statistics

type stats struct {
	Prop       string         `json:"prop"`
	Name       string         `json:"name"`
	Rule       string         `json:"rule"`
	Evals      int            `json:"evaluations"`
	NonTrivial int            `json:"nontrivial_total"`
	Hashes     []uint64       `json:"nontrivial_hashes"`
	Classes    map[string]int `json:"classes"`
	Excluded   map[string]int `json:"excluded_known"`
	Samples    []any          `json:"samples"`
	Exhaustive bool           `json:"exhaustive,omitempty"`
	Extra      map[string]any `json:"extra,omitempty"`

	hashset      map[uint64]struct{}
	haveFallback bool
	fallback     any
}

var (
	statsMu  sync.Mutex
	allStats = map[string]*stats{}
)

func getStats(prop, name, rule string) *stats {
	statsMu.Lock()
	defer statsMu.Unlock()
	k := prop + "/" + name
	s, ok := allStats[k]
	if !ok {
		s = &stats{Prop: prop, Name: name, Rule: rule, Classes: map[string]int{}, Excluded: map[string]int{}, hashset: map[uint64]struct{}{}}
		allStats[k] = s
	}
	return s
}

const maxSamples = 4
const maxHashes = 400000

func hashJSON(b []byte) uint64 {
	h := fnv.New64a()
	h.Write(b)
	return h.Sum64()
}

func (s *stats) record(caseJSON []byte, sample any, res Result) {
	statsMu.Lock()
	defer statsMu.Unlock()
	s.Evals++
	for _, c := range res.Classes {
		s.Classes[c]++
	}
	if res.NonTrivial {
		s.NonTrivial++
		if len(s.hashset) < maxHashes {
			s.hashset[hashJSON(caseJSON)] = struct{}{}
		}
		if len(s.Samples) < maxSamples && len(caseJSON) < 6000 {
			s.Samples = append(s.Samples, sample)
		}
	}
	if len(s.Samples) == 0 && !s.haveFallback {
		// keep at least one written-out case even if all cases are large
		s.haveFallback = true
		if len(caseJSON) < 6000 {
			s.fallback = sample
		} else {
			s.fallback = string(caseJSON[:3000]) + "...(truncated)"
		}
	}
}

// Note records an extra key in the stats of a sub-check (e.g. fuzz executions).
func Note(prop, name, key string, v any) {
	s := getStats(prop, name, "")
	statsMu.Lock()
	defer statsMu.Unlock()
	if s.Extra == nil {
		s.Extra = map[string]any{}
	}
	s.Extra[key] = v
}

// FlushStats writes all statistics of this process to $VERIF_STATS (if set).
func FlushStats() {
	path := os.Getenv("VERIF_STATS")
	if path == "" {
		return
	}
	statsMu.Lock()
	defer statsMu.Unlock()
	var list []*stats
	for _, s := range allStats {
		if len(s.Samples) == 0 && s.haveFallback {
			s.Samples = append(s.Samples, s.fallback)
		}
		s.Hashes = s.Hashes[:0]
		for h := range s.hashset {
			s.Hashes = append(s.Hashes, h)
		}
		sort.Slice(s.Hashes, func(i, j int) bool { return s.Hashes[i] < s.Hashes[j] })
		list = append(list, s)
	}
	sort.Slice(list, func(i, j int) bool { return list[i].Name < list[j].Name })
	b, err := json.Marshal(list)
	if err != nil {
		fmt.Fprintf(os.Stderr, "kit: cannot marshal stats: %v\n", err)
		return
	}
	tmp := path + ".tmp"
	if err := os.WriteFile(tmp, b, 0o644); err == nil {
		os.Rename(tmp, path)
	}
}

// Main is to be called from TestMain of every property package.
func Main(m *testing.M) {
	code := m.Run()
	FlushStats()
	os.Exit(code)
}

// ---------------------------------------------------------------------------
// known findings

type Finding struct {
	Property string          `json:"property"`
	Key      string          `json:"key"`
	Status   string          `json:"status"` // "open" | "fixed"
	Commit   string          `json:"commit,omitempty"`
	What     string          `json:"what"`
	Check    string          `json:"check,omitempty"` // sub-check name the case belongs to
	Case     json.RawMessage `json:"case,omitempty"`
}

var (
	findingsOnce sync.Once
	findings     []Finding
)

func Findings() []Finding {
	findingsOnce.Do(func() {
		files := []string{filepath.Join(Root(), "known_findings.json")}
		more, _ := filepath.Glob(filepath.Join(Root(), "known_findings.d", "*.json"))
		sort.Strings(more)
		files = append(files, more...)
		for _, fn := range files {
			b, err := os.ReadFile(fn)
			if err != nil {
				continue
			}
			var f struct {
				Findings []Finding `json:"findings"`
			}
			if err := json.Unmarshal(b, &f); err != nil {
				fmt.Fprintf(os.Stderr, "kit: %s: %v\n", fn, err)
				continue
			}
			findings = append(findings, f.Findings...)
		}
	})
	return findings
}

// OpenFinding reports whether key is listed as an open finding of prop.
func OpenFinding(prop, key string) bool {
	for _, f := range Findings() {
		if f.Property == prop && f.Key == key && f.Status == "open" {
			return true
		}
	}
	return false
}

// ---------------------------------------------------------------------------
// driving

var (
	lastFailMu sync.Mutex
)

func writeFail(prop, name string, caseJSON []byte, msg string) string {
	path := filepath.Join(outDir(), fmt.Sprintf("%s-%s-seed%s-s%s.json", prop, name, os.Getenv("VERIF_SEED_EFF"), Shard()))
	os.MkdirAll(filepath.Dir(path), 0o755)
	doc := map[string]any{"property": prop, "check": name, "error": msg, "case": json.RawMessage(caseJSON)}
	b, _ := json.MarshalIndent(doc, "", " ")
	os.WriteFile(path, b, 0o644)
	return path
}

// SafeRun executes run(c) and converts a panic into a failing Result (a panic of the
// library on an in-domain generated input is a property failure).
func SafeRun[C any](run func(C) Result, c C) (res Result) {
	defer func() {
		if r := recover(); r != nil {
			res = Result{Err: fmt.Errorf("panic: %v\n%s", r, debug.Stack())}
		}
	}()
	return run(c)
}

// runGuarded is SafeRun with the optional hang guard of the spec. A hung case cannot be
// cancelled, so on expiry the verdict is written and the process exits.
func runGuarded[C any](s *Spec[C], c C, cj []byte) Result {
	if s.HangTimeout <= 0 {
		return SafeRun(s.Run, c)
	}
	done := make(chan Result, 1)
	go func() { done <- hangRunner(s.Run, c) }()
	select {
	case r := <-done:
		return r
	case <-time.After(s.HangTimeout):
	}
	buf := make([]byte, 4<<20)
	buf = buf[:runtime.Stack(buf, true)]
	inBoxo := false
	for _, g := range strings.Split(string(buf), "\n\n") {
		if strings.Contains(g, "kit.hangRunner") {
			inBoxo = strings.Contains(g, "github.com/ipfs/boxo/")
			fmt.Printf("kit: case still running after %v; goroutine:\n%s\n", s.HangTimeout, g)
		}
	}
	FlushStats()
	if !inBoxo {
		fmt.Printf("kit: stuck goroutine is not inside boxo: inconclusive\n")
		os.Exit(3)
	}
	p := writeFail(s.Prop, s.name(), cj, fmt.Sprintf("case did not terminate within %v (goroutine inside boxo)", s.HangTimeout))
	fmt.Printf("VERIF-FAIL property=%s check=%s replay=%s\n", s.Prop, s.name(), p)
	os.Exit(1)
	return Result{}
}

//go:noinline
func hangRunner[C any](run func(C) Result, c C) Result { return SafeRun(run, c) }

// Check drives the spec with rapid. On failure the shrunk case is written to
// $VERIF_FAIL (or out/<prop>-<name>-fail.json) and "VERIF-FAIL property=.. replay=.." is logged.
func Check[C any](t *testing.T, s Spec[C]) {
	t.Helper()
	if os.Getenv("VERIF_REPLAY") != "" {
		t.Skip("replay mode")
	}
	n := s.Quick
	if Tier() == "thorough" {
		n = s.Thorough
	}
	if v := os.Getenv("VERIF_CHECKS_SCALE"); v != "" {
		if f, err := strconv.ParseFloat(v, 64); err == nil && f > 0 {
			n = int(float64(n)*f) + 1
		}
	}
	if n <= 0 {
		t.Skip("not in this tier")
	}
	flag.Set("rapid.checks", strconv.Itoa(n))
	flag.Set("rapid.nofailfile", "true")
	st := getStats(s.Prop, s.name(), s.Rule)

	var lastFail []byte
	var lastMsg string
	failed := false
	journal := ""
	if s.Journal {
		os.MkdirAll(outDir(), 0o755)
		journal = filepath.Join(outDir(), fmt.Sprintf("%s.%s.%s.current.json", s.Prop, s.name(), Shard()))
	}
	defer func() {
		if journal != "" && !t.Failed() {
			os.Remove(journal)
		}
		if t.Failed() && lastFail != nil {
			p := writeFail(s.Prop, s.name(), lastFail, lastMsg)
			fmt.Printf("VERIF-FAIL property=%s check=%s replay=%s\n", s.Prop, s.name(), p)
		}
	}()
	rapid.Check(t, func(rt *rapid.T) {
		c := s.Gen(rt)
		cj, err := json.Marshal(c)
		if err != nil {
			panic(fmt.Sprintf("kit: case not serialisable: %v", err))
		}
		if journal != "" {
			doc, _ := json.Marshal(map[string]any{"property": s.Prop, "check": s.name(), "error": "process died while running this case", "case": json.RawMessage(cj)})
			os.WriteFile(journal, doc, 0o644)
		}
		res := runGuarded(&s, c, cj)
		if res.Err != nil && res.Known != "" && OpenFinding(s.Prop, res.Known) {
			statsMu.Lock()
			st.Excluded[res.Known]++
			statsMu.Unlock()
			return
		}
		if res.Err != nil {
			lastFailMu.Lock()
			lastFail, lastMsg, failed = cj, res.Err.Error(), true
			lastFailMu.Unlock()
			rt.Fatalf("property %s violated: %v", s.Prop, res.Err)
		}
		if !failed {
			var sample any = json.RawMessage(cj)
			if s.Sample != nil {
				sample = s.Sample(c)
			}
			st.record(cj, sample, res)
		}
	})
}

// Exhaustive runs the spec over an explicitly enumerated finite list of cases.
func Exhaustive[C any](t *testing.T, s Spec[C], cases func(yield func(C) bool)) {
	t.Helper()
	if os.Getenv("VERIF_REPLAY") != "" {
		t.Skip("replay mode")
	}
	st := getStats(s.Prop, s.name(), s.Rule)
	st.Exhaustive = true
	cases(func(c C) bool {
		cj, _ := json.Marshal(c)
		res := SafeRun(s.Run, c)
		if res.Err != nil && res.Known != "" && OpenFinding(s.Prop, res.Known) {
			statsMu.Lock()
			st.Excluded[res.Known]++
			statsMu.Unlock()
			return true
		}
		if res.Err != nil {
			p := writeFail(s.Prop, s.name(), cj, res.Err.Error())
			fmt.Printf("VERIF-FAIL property=%s check=%s replay=%s\n", s.Prop, s.name(), p)
			t.Errorf("property %s violated: %v", s.Prop, res.Err)
			return false
		}
		var sample any = json.RawMessage(cj)
		if s.Sample != nil {
			sample = s.Sample(c)
		}
		st.record(cj, sample, res)
		return true
	})
}

type replayDoc struct {
	Property string          `json:"property"`
	Check    string          `json:"check"`
	Error    string          `json:"error"`
	Case     json.RawMessage `json:"case"`
}

// Replay runs saved cases without rapid: the file named by $VERIF_REPLAY if set
// (only if it belongs to this sub-check), otherwise every committed
// replay/<prop>-<name>-*.json.
func Replay[C any](t *testing.T, s Spec[C]) {
	t.Helper()
	var files []string
	if p := os.Getenv("VERIF_REPLAY"); p != "" {
		files = []string{p}
	} else {
		files, _ = filepath.Glob(filepath.Join(Root(), "replay", fmt.Sprintf("%s-%s-*.json", s.Prop, s.name())))
		sort.Strings(files)
	}
	for _, f := range files {
		b, err := os.ReadFile(f)
		if err != nil {
			t.Fatalf("replay %s: %v", f, err)
		}
		var d replayDoc
		if err := json.Unmarshal(b, &d); err != nil {
			t.Fatalf("replay %s: %v", f, err)
		}
		if d.Check != "" && d.Check != s.name() {
			continue
		}
		var c C
		if err := json.Unmarshal(d.Case, &c); err != nil {
			t.Fatalf("replay %s: case does not decode: %v", f, err)
		}
		res := runGuarded(&s, c, d.Case)
		st := getStats(s.Prop, s.name(), s.Rule)
		statsMu.Lock()
		st.Classes["replayed"]++
		statsMu.Unlock()
		if res.Err != nil && res.Known != "" && OpenFinding(s.Prop, res.Known) {
			continue
		}
		if res.Err != nil {
			fmt.Printf("VERIF-FAIL property=%s check=%s replay=%s\n", s.Prop, s.name(), f)
			t.Errorf("replay %s: property %s violated: %v", filepath.Base(f), s.Prop, res.Err)
		}
	}
}

// RunFindings executes the repro case of every known finding that belongs to this
// sub-check. Open finding still failing -> prints the KNOWN-FINDING line (exit stays 0).
// Fixed finding failing again -> violation.
func RunFindings[C any](t *testing.T, s Spec[C]) {
	t.Helper()
	if os.Getenv("VERIF_REPLAY") != "" {
		return
	}
	for _, f := range Findings() {
		if f.Property != s.Prop || len(f.Case) == 0 {
			continue
		}
		chk := f.Check
		if chk == "" {
			chk = "main"
		}
		if chk != s.name() {
			continue
		}
		var c C
		if err := json.Unmarshal(f.Case, &c); err != nil {
			t.Fatalf("known finding %s/%s: case does not decode: %v", f.Property, f.Key, err)
		}
		res := runGuarded(&s, c, f.Case)
		switch f.Status {
		case "open":
			if res.Err != nil {
				fmt.Printf("KNOWN-FINDING: property=%s %s: %s\n", f.Property, f.Key, oneLine(f.What))
			} else {
				fmt.Printf("NOTE: known finding %s/%s no longer reproduces\n", f.Property, f.Key)
			}
		case "fixed":
			if res.Err != nil {
				p := writeFail(s.Prop, s.name(), f.Case, res.Err.Error())
				fmt.Printf("VERIF-FAIL property=%s check=%s replay=%s\n", s.Prop, s.name(), p)
				t.Errorf("fixed finding %s/%s has returned: %v", f.Property, f.Key, res.Err)
			}
		}
	}
}

// All runs replay files, known findings and the generated search for a spec.
func All[C any](t *testing.T, s Spec[C]) {
	t.Helper()
	t.Run("replay", func(t *testing.T) { Replay(t, s) })
	t.Run("findings", func(t *testing.T) { RunFindings(t, s) })
	t.Run("search", func(t *testing.T) { Check(t, s) })
}

func oneLine(s string) string {
	return strings.Join(strings.Fields(s), " ")
}
