package kit

import (
	"pgregory.net/rapid"
)

// DataSpec describes a byte string compactly, so that MiB-size inputs stay tiny in the
// case JSON (replay files, known-finding cases) and shrink as a few integers.
//
//	kind "const":    Len copies of byte(Seed)
//	kind "periodic": Period repeated up to Len bytes
//	kind "random":   Len bytes of an xorshift64 stream started at Seed (Seed 0 is read as 1)
//	kind "literal":  exactly Lit (Len is ignored); used by fuzz-derived cases
type DataSpec struct {
	Kind   string `json:"kind"`
	Len    int    `json:"len"`
	Seed   uint64 `json:"seed,omitempty"`
	Period []byte `json:"period,omitempty"`
	Lit    []byte `json:"lit,omitempty"`
}

// Bytes expands the description. Pure function of d.
func (d DataSpec) Bytes() []byte {
	if d.Kind == "literal" {
		return append([]byte{}, d.Lit...)
	}
	n := d.Len
	if n < 0 {
		n = 0
	}
	b := make([]byte, n)
	switch d.Kind {
	case "const":
		v := byte(d.Seed)
		for i := range b {
			b[i] = v
		}
	case "periodic":
		p := d.Period
		if len(p) == 0 {
			p = []byte{0}
		}
		for i := range b {
			b[i] = p[i%len(p)]
		}
	default: // random
		s := d.Seed
		if s == 0 {
			s = 1
		}
		for i := range b {
			s ^= s << 13
			s ^= s >> 7
			s ^= s << 17
			b[i] = byte(s >> 24)
		}
	}
	return b
}

// Size is the length of the described byte string.
func (d DataSpec) Size() int {
	if d.Kind == "literal" {
		return len(d.Lit)
	}
	if d.Len < 0 {
		return 0
	}
	return d.Len
}

// DataOfLen draws the content class of a DataSpec of exactly n bytes
// (constant / periodic / random, random twice as likely).
func DataOfLen(t *rapid.T, n int, label string) DataSpec {
	d := DataSpec{Len: n}
	switch rapid.IntRange(0, 3).Draw(t, label+".content") {
	case 0:
		d.Kind = "const"
		d.Seed = uint64(rapid.Byte().Draw(t, label+".const"))
	case 1:
		d.Kind = "periodic"
		d.Period = rapid.SliceOfN(rapid.Byte(), 1, 7).Draw(t, label+".period")
	default:
		d.Kind = "random"
		d.Seed = rapid.Uint64Range(1, 1<<40).Draw(t, label+".seed")
	}
	return d
}
