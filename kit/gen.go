package kit

import (
	"bytes"
	"io"

	blocks "github.com/ipfs/go-block-format"
	cid "github.com/ipfs/go-cid"
	mh "github.com/multiformats/go-multihash"
	"pgregory.net/rapid"
)

// ---------------------------------------------------------------------------
// byte strings

// Bytes generates byte strings of length 0..max in classes: empty, one byte, constant,
// periodic, random. Lengths are drawn from size classes so that long values are frequent.
func Bytes(max int) *rapid.Generator[[]byte] {
	return rapid.Custom(func(t *rapid.T) []byte {
		n := Length(max).Draw(t, "len")
		return FillBytes(t, n)
	})
}

// Length draws a length in [0,max] weighted to 0, 1, small, and the upper range.
func Length(max int) *rapid.Generator[int] {
	return rapid.Custom(func(t *rapid.T) int {
		if max <= 0 {
			return 0
		}
		switch rapid.IntRange(0, 9).Draw(t, "lenclass") {
		case 0:
			return 0
		case 1:
			return 1
		case 2, 3, 4:
			m := max
			if m > 64 {
				m = 64
			}
			return rapid.IntRange(0, m).Draw(t, "n")
		default:
			return rapid.IntRange(0, max).Draw(t, "n")
		}
	})
}

// Around draws a value in {c-2..c+2} ∩ [lo,hi].
func Around(c, lo, hi int) *rapid.Generator[int] {
	return rapid.Custom(func(t *rapid.T) int {
		v := c + rapid.IntRange(-2, 2).Draw(t, "delta")
		if v < lo {
			v = lo
		}
		if v > hi {
			v = hi
		}
		return v
	})
}

// FillBytes produces n bytes of a drawn content class. Only O(1) draws for big n.
func FillBytes(t *rapid.T, n int) []byte {
	b := make([]byte, n)
	if n == 0 {
		return b
	}
	switch rapid.IntRange(0, 3).Draw(t, "content") {
	case 0: // constant
		v := rapid.Byte().Draw(t, "const")
		for i := range b {
			b[i] = v
		}
	case 1: // periodic
		p := rapid.SliceOfN(rapid.Byte(), 1, 7).Draw(t, "period")
		for i := range b {
			b[i] = p[i%len(p)]
		}
	default: // pseudo random from a drawn seed (xorshift), cheap for MiB sizes
		s := rapid.Uint64Min(1).Draw(t, "seed")
		for i := range b {
			s ^= s << 13
			s ^= s >> 7
			s ^= s << 17
			b[i] = byte(s >> 24)
		}
	}
	return b
}

// ---------------------------------------------------------------------------
// readers

// FragReader returns data in the read sizes given by plan (cycled); a plan entry of 0 is
// treated as 1. If EOFWithData is set the final read returns (n>0, io.EOF).
type FragReader struct {
	Data        []byte
	Plan        []int
	EOFWithData bool
	pos, i      int
}

func (r *FragReader) Read(p []byte) (int, error) {
	if r.pos >= len(r.Data) {
		return 0, io.EOF
	}
	if len(p) == 0 {
		return 0, nil
	}
	n := len(p)
	if len(r.Plan) > 0 {
		k := r.Plan[r.i%len(r.Plan)]
		r.i++
		if k < 1 {
			k = 1
		}
		if k < n {
			n = k
		}
	}
	if n > len(r.Data)-r.pos {
		n = len(r.Data) - r.pos
	}
	copy(p, r.Data[r.pos:r.pos+n])
	r.pos += n
	if r.pos == len(r.Data) && r.EOFWithData {
		return n, io.EOF
	}
	return n, nil
}

// ReadPlan generates a fragmentation plan.
func ReadPlan() *rapid.Generator[[]int] {
	return rapid.OneOf(
		rapid.Just([]int(nil)), // no fragmentation
		rapid.Just([]int{1}),   // one-byte reads
		rapid.SliceOfN(rapid.IntRange(1, 100), 1, 6),
		rapid.SliceOfN(rapid.IntRange(1, 70000), 1, 4),
	)
}

// ---------------------------------------------------------------------------
// CIDs and blocks

// PrefixSpec is a JSON-friendly cid.Prefix.
type PrefixSpec struct {
	Version  uint64 `json:"version"`
	Codec    uint64 `json:"codec"`
	MhType   uint64 `json:"mh_type"`
	MhLength int    `json:"mh_length"`
}

func (p PrefixSpec) Prefix() cid.Prefix {
	return cid.Prefix{Version: p.Version, Codec: p.Codec, MhType: p.MhType, MhLength: p.MhLength}
}

// Prefixes generates honest CID prefixes: CIDv0 (dag-pb, sha2-256) and CIDv1 over
// {raw, dag-pb, dag-cbor} x {sha2-256, sha2-512, blake2b-256, sha3-256}. Identity
// hashes are generated only when withIdentity is set.
func Prefixes(withIdentity bool) *rapid.Generator[PrefixSpec] {
	return rapid.Custom(func(t *rapid.T) PrefixSpec {
		if rapid.IntRange(0, 3).Draw(t, "v0") == 0 {
			return PrefixSpec{0, cid.DagProtobuf, mh.SHA2_256, 32}
		}
		codec := rapid.SampledFrom([]uint64{cid.Raw, cid.DagProtobuf, cid.DagCBOR}).Draw(t, "codec")
		type ht struct {
			c uint64
			l int
		}
		hs := []ht{{mh.SHA2_256, 32}, {mh.SHA2_256, 32}, {mh.SHA2_512, 64}, {mh.BLAKE2B_MIN + 31, 32}, {mh.SHA3_256, 32}}
		if withIdentity {
			hs = append(hs, ht{mh.IDENTITY, -1})
		}
		h := rapid.SampledFrom(hs).Draw(t, "hash")
		return PrefixSpec{1, codec, h.c, h.l}
	})
}

// Block builds an honest block (CID computed from data under prefix).
func Block(data []byte, p PrefixSpec) blocks.Block {
	c, err := p.Prefix().Sum(data)
	if err != nil {
		panic(err)
	}
	b, err := blocks.NewBlockWithCid(data, c)
	if err != nil {
		panic(err)
	}
	return b
}

// AliasCids returns the alternative CID forms that share c's multihash:
// CIDv0 <-> CIDv1(dag-pb) and CIDv1(raw) of the same multihash.
func AliasCids(c cid.Cid) []cid.Cid {
	h := c.Hash()
	out := []cid.Cid{cid.NewCidV1(cid.Raw, h), cid.NewCidV1(cid.DagProtobuf, h)}
	if dm, err := mh.Decode(h); err == nil && dm.Code == mh.SHA2_256 && dm.Length == 32 {
		out = append(out, cid.NewCidV0(h))
	}
	var res []cid.Cid
	for _, a := range out {
		if !a.Equals(c) {
			res = append(res, a)
		}
	}
	return res
}

// Verify reports whether data hashes to c.
func Verify(c cid.Cid, data []byte) bool {
	c2, err := c.Prefix().Sum(data)
	if err != nil {
		return false
	}
	return bytes.Equal(c2.Hash(), c.Hash())
}

// ---------------------------------------------------------------------------
// names

var namePool = []string{
	"a", "b", "c", "A", "ab", "abc", "a b", "a%20b", "%", "\"q\"", "x'y", "ü", "日本", "file.txt", ".hidden",
	"a-b", "a_b", "a.b.c", "name with spaces", "semi;colon", "eq=uals", "am&p", "pl+us", "c,omma", "hash#", "q?mark",
}

// Names generates entry names: pool names, short random ascii, long names (<=300 bytes).
// Never empty, never containing '/', never "." or "..".
func Names() *rapid.Generator[string] {
	return rapid.Custom(func(t *rapid.T) string {
		switch rapid.IntRange(0, 5).Draw(t, "nameclass") {
		case 0, 1:
			return rapid.SampledFrom(namePool).Draw(t, "pool")
		case 2:
			return rapid.StringMatching(`[a-z]{1,3}[0-9]{0,2}`).Draw(t, "short")
		case 3:
			n := rapid.IntRange(100, 300).Draw(t, "longlen")
			b := make([]byte, n)
			ch := rapid.SampledFrom([]byte("xyzXYZ09_")).Draw(t, "ch")
			for i := range b {
				b[i] = ch
			}
			return string(b)
		default:
			return rapid.StringMatching(`[a-zA-Z0-9 _.%-]{1,12}`).Filter(func(s string) bool { return s != "." && s != ".." }).Draw(t, "rnd")
		}
	})
}
