package kit

// Shared helpers of the UnixFS directory checks (C15, C16, C17): an independent model of
// the HAMT key hashing (murmur3-64, most significant bit first), a deterministic pool of
// names whose hashes share long prefixes, and small child-node builders.

import (
	"encoding/binary"
	"fmt"
	"math/bits"
	"sort"
	"strings"
	"sync"

	mdag "github.com/ipfs/boxo/ipld/merkledag"
	cid "github.com/ipfs/go-cid"
	ipld "github.com/ipfs/go-ipld-format"
	mh "github.com/multiformats/go-multihash"
	"github.com/spaolacci/murmur3"
)

// HamtHash returns the 64 hash bits the UnixFS HAMT derives from an entry name
// (murmur3 x64 128, first 8 bytes, big endian; consumed from the most significant bit).
func HamtHash(name string) uint64 {
	h := murmur3.New64()
	h.Write([]byte(name))
	return binary.BigEndian.Uint64(h.Sum(nil))
}

// NameGroup is a set of names whose HAMT hashes agree in at least Bits leading bits.
type NameGroup struct {
	Bits  int
	Names []string
}

var (
	collOnce   sync.Once
	collGroups []NameGroup
)

// collTable is the output of FindCollidingNameGroups() (brute force over n0..n99999),
// stored so that every process does not repeat the search. CollidingNameGroups verifies
// each group against the hash function on first use.
var collTable = []NameGroup{
	{32, []string{"n34394", "n8458"}},
	{30, []string{"n722", "n56213"}},
	{30, []string{"n71169", "n77118"}},
	{15, []string{"n0", "n42535", "n61057", "n86126"}},
	{15, []string{"n3", "n5233", "n12663", "n38196"}},
	{12, []string{"n1", "n1304", "n6005", "n8046"}},
	{9, []string{"n2", "n22", "n594", "n830", "n1119", "n1232"}},
}

// CollidingNameGroups returns deterministic groups of hash-prefix-colliding names: three
// pairs with 30-32 common leading hash bits, two groups of four names sharing >= 15 bits, one
// group of four sharing >= 12 bits and one group of six sharing >= 9 bits (pre-computed by
// FindCollidingNameGroups, verified here).
func CollidingNameGroups() []NameGroup {
	collOnce.Do(func() {
		for _, g := range collTable {
			h0 := HamtHash(g.Names[0])
			for _, s := range g.Names[1:] {
				if bits.LeadingZeros64(h0^HamtHash(s)) < g.Bits {
					panic("kit: colliding-name table does not match the hash function: " + s)
				}
			}
		}
		collGroups = collTable
	})
	return collGroups
}

// FindCollidingNameGroups is the brute-force search that produced collTable: over n0..n99999
// the three adjacent pairs (in hash order) with the longest common hash prefix, then the first
// buckets (in index order) of the required size by 15, 12 and 9 leading bits.
func FindCollidingNameGroups() []NameGroup {
	var collGroups []NameGroup
	{
		const n = 100000
		type nh struct {
			name string
			h    uint64
		}
		all := make([]nh, n)
		for i := 0; i < n; i++ {
			s := fmt.Sprintf("n%d", i)
			all[i] = nh{s, HamtHash(s)}
		}
		sorted := append([]nh(nil), all...)
		sort.Slice(sorted, func(i, j int) bool {
			if sorted[i].h != sorted[j].h {
				return sorted[i].h < sorted[j].h
			}
			return sorted[i].name < sorted[j].name
		})
		// deepest pairs: three rounds of "best adjacent pair not yet used"
		used := map[string]bool{}
		for round := 0; round < 3; round++ {
			best, bestBits := -1, -1
			for i := 0; i+1 < n; i++ {
				b := bits.LeadingZeros64(sorted[i].h ^ sorted[i+1].h)
				if b > bestBits && b < 64 && !used[sorted[i].name] && !used[sorted[i+1].name] {
					best, bestBits = i, b
				}
			}
			a, b := sorted[best].name, sorted[best+1].name
			used[a], used[b] = true, true
			collGroups = append(collGroups, NameGroup{bestBits, []string{a, b}})
		}
		// buckets by leading k bits, in index order
		bucket := func(k, size, count int) {
			m := map[uint64][]string{}
			var order []uint64
			for _, x := range all {
				if used[x.name] {
					continue
				}
				key := x.h >> (64 - uint(k))
				if _, ok := m[key]; !ok {
					order = append(order, key)
				}
				m[key] = append(m[key], x.name)
			}
			got := 0
			for _, key := range order {
				if got == count {
					break
				}
				if len(m[key]) >= size {
					g := append([]string(nil), m[key][:size]...)
					for _, s := range g {
						used[s] = true
					}
					collGroups = append(collGroups, NameGroup{k, g})
					got++
				}
			}
		}
		bucket(15, 4, 2)
		bucket(12, 4, 1)
		bucket(9, 6, 1)
	}
	return collGroups
}

// CollidingNames returns all names of CollidingNameGroups, flattened.
func CollidingNames() []string {
	var out []string
	for _, g := range CollidingNameGroups() {
		out = append(out, g.Names...)
	}
	return out
}

// DirNamePool is the master name pool of the directory checks: colliding names, the general
// name pool (unicode, spaces, quotes, %), names that look like HAMT hex prefixes,
// whitespace-only ("empty-ish") names and long names up to 300 bytes. Never empty, no '/'.
func DirNamePool() []string {
	out := append([]string(nil), CollidingNames()...)
	out = append(out, namePool...)
	out = append(out, "00", "FF", "0A1", "000", "3FF", " ", "  ", "\t", "-", "~")
	out = append(out,
		strings.Repeat("x", 100), strings.Repeat("y", 127), strings.Repeat("z", 128),
		strings.Repeat("L", 255), strings.Repeat("M", 300), strings.Repeat("ü", 150))
	return out
}

// HamtShardCount returns how many sub-shards (not counting the root) the canonical HAMT of
// the given names has at the given fanout: one per (level, hash prefix) shared by at least
// two names. Pure model; used to recognise shard collapses without touching the SUT.
func HamtShardCount(names []string, width int) int {
	lg := bits.TrailingZeros(uint(width))
	if lg == 0 {
		return 0
	}
	cnt := 0
	hs := make([]uint64, len(names))
	for i, s := range names {
		hs[i] = HamtHash(s)
	}
	for level := 1; level*lg <= 64; level++ {
		m := map[uint64]int{}
		for _, h := range hs {
			m[h>>(64-uint(level*lg))]++
		}
		any := false
		for _, c := range m {
			if c >= 2 {
				cnt++
				any = true
			}
		}
		if !any {
			break
		}
	}
	return cnt
}

// ---------------------------------------------------------------------------
// child nodes

// ChildSpec describes a directory-entry target in a JSON-friendly way.
type ChildSpec struct {
	Prefix PrefixSpec `json:"prefix"`
	// Tsize is the cumulative size the link to this child must report (Node.Size()).
	Tsize uint64 `json:"tsize"`
	Salt  uint32 `json:"salt"`
}

var childFiller = func() cid.Cid {
	h, _ := mh.Sum([]byte("verif-filler"), mh.SHA2_256, -1)
	return cid.NewCidV0(h)
}()

// MakeChild builds a real node whose Cid has the given prefix and whose Size() is exactly
// spec.Tsize whenever that is reachable: a raw node of Tsize bytes for raw prefixes (and for
// small sizes), otherwise a dag-pb node carrying one link with a large Tsize. It returns the
// node and the size its link will report.
func MakeChild(spec ChildSpec) (ipld.Node, uint64) {
	p := spec.Prefix.Prefix()
	salt := []byte{byte(spec.Salt), byte(spec.Salt >> 8), byte(spec.Salt >> 16), byte(spec.Salt >> 24)}
	if p.Codec == cid.Raw {
		n := spec.Tsize
		if n > 4096 {
			n = 4096
		}
		data := make([]byte, n)
		for i := range data {
			data[i] = salt[i%4] + byte(i)
		}
		nd, err := mdag.NewRawNodeWPrefix(data, p)
		if err != nil {
			panic(err)
		}
		return nd, uint64(len(data))
	}
	nd := mdag.NodeWithData(salt)
	if p.Version == 0 {
		nd.SetCidBuilder(nil)
	} else {
		pp := p
		pp.Codec = cid.DagProtobuf
		if err := nd.SetCidBuilder(pp); err != nil {
			panic(err)
		}
	}
	base := uint64(len(nd.RawData()))
	if spec.Tsize <= base+50 {
		return nd, base
	}
	// one link whose Tsize makes the cumulative size hit the target; the link's own
	// encoding grows with the varint, so solve by iteration
	extra := spec.Tsize - base
	for i := 0; i < 4; i++ {
		nd2 := nd.Copy().(*mdag.ProtoNode)
		nd2.AddRawLink("", &ipld.Link{Size: extra, Cid: childFiller})
		sz, _ := nd2.Size()
		if sz == spec.Tsize {
			return nd2, sz
		}
		if sz > spec.Tsize {
			d := sz - spec.Tsize
			if d >= extra {
				break
			}
			extra -= d
		} else {
			extra += spec.Tsize - sz
		}
	}
	nd2 := nd.Copy().(*mdag.ProtoNode)
	nd2.AddRawLink("", &ipld.Link{Size: extra, Cid: childFiller})
	sz, _ := nd2.Size()
	return nd2, sz
}
