package kit

// UnixFS file helpers shared by the importer/reader/modifier checks (C07, C08; usable by
// C09, C10, C30).
//
//	ds := NewDAG()                                   fresh in-memory DAGService
//	root, err := BuildFile(ds, reader, params)       balanced.Layout / trickle.Layout
//	root2, err := AppendFile(ds, root, reader, p)    trickle.Append
//	data, st, err := ReadFile(ds, root)              through uio.DagReader
//	tree, err := WalkFile(ds, root)                  independent decode of every node
//	tree.CheckSizes()                                size bookkeeping (Filesize / blocksizes)
//	tree.CheckBalancedShape(width)                   statement rule for balanced DAGs
//	tree.CheckTrickleShape(width)                    documented trickle depth/repeat rule
//	tree.CheckLeaves(rawLeaves, pbType)              leaf representation
//	tree.CheckPrefix(prefix)                         CID prefix of every node
//	LibVerifyTrickle(ds, root, params)               the library's own structure checker
//
// The walker and the checkers use only the dag-pb link list and the protobuf message of
// each node (decoded here with proto.Unmarshal), never the importer's helper types.

import (
	"bytes"
	"context"
	"errors"
	"fmt"
	"io"
	"os"
	"time"

	bsrv "github.com/ipfs/boxo/blockservice"
	blockstore "github.com/ipfs/boxo/blockstore"
	chunk "github.com/ipfs/boxo/chunker"
	offline "github.com/ipfs/boxo/exchange/offline"
	"github.com/ipfs/boxo/files"
	dag "github.com/ipfs/boxo/ipld/merkledag"
	"github.com/ipfs/boxo/ipld/unixfs/importer/balanced"
	ihelper "github.com/ipfs/boxo/ipld/unixfs/importer/helpers"
	"github.com/ipfs/boxo/ipld/unixfs/importer/trickle"
	uio "github.com/ipfs/boxo/ipld/unixfs/io"
	upb "github.com/ipfs/boxo/ipld/unixfs/pb"
	cid "github.com/ipfs/go-cid"
	ds "github.com/ipfs/go-datastore"
	dssync "github.com/ipfs/go-datastore/sync"
	ipld "github.com/ipfs/go-ipld-format"
	"google.golang.org/protobuf/proto"
)

// TrickleRepeat is the documented number of sub-trees per depth layer of a trickle DAG
// ("By default, this module places 4 nodes per layer").
const TrickleRepeat = 4

// Timestamp is a JSON-friendly modification time.
type Timestamp struct {
	Sec  int64 `json:"sec"`
	Nsec int   `json:"nsec"`
}

func (ts *Timestamp) Time() time.Time {
	if ts == nil {
		return time.Time{}
	}
	return time.Unix(ts.Sec, int64(ts.Nsec))
}

// ImportParams are the importer parameters of one file.
type ImportParams struct {
	Layout    string      `json:"layout"`           // "balanced" | "trickle"
	Chunker   string      `json:"chunker"`          // spec string for chunk.FromString
	Width     int         `json:"width"`            // DagBuilderParams.Maxlinks (>= 2)
	RawLeaves bool        `json:"raw_leaves"`       // DagBuilderParams.RawLeaves
	Prefix    *PrefixSpec `json:"prefix,omitempty"` // CidBuilder (cid.Prefix); nil = none
	Mode      uint32      `json:"mode,omitempty"`   // unix permission bits 0..07777; 0 = not set
	Mtime     *Timestamp  `json:"mtime,omitempty"`  // nil = not set
}

// FileMode is the os.FileMode passed to the importer for p.Mode.
func (p ImportParams) FileMode() os.FileMode { return files.UnixPermsToModePerms(p.Mode) }

// NewDAG returns a fresh in-memory DAGService (map datastore, offline exchange).
func NewDAG() ipld.DAGService {
	bs := blockstore.NewBlockstore(dssync.MutexWrap(ds.NewMapDatastore()))
	return dag.NewDAGService(bsrv.New(bs, offline.Exchange(bs)))
}

func (p ImportParams) helper(dserv ipld.DAGService, r io.Reader, withAttrs bool) (*ihelper.DagBuilderHelper, error) {
	spl, err := chunk.FromString(r, p.Chunker)
	if err != nil {
		return nil, fmt.Errorf("chunker %q: %w", p.Chunker, err)
	}
	dbp := ihelper.DagBuilderParams{Maxlinks: p.Width, RawLeaves: p.RawLeaves, Dagserv: dserv}
	if p.Prefix != nil {
		dbp.CidBuilder = p.Prefix.Prefix()
	}
	if withAttrs {
		dbp.FileMode = p.FileMode()
		dbp.FileModTime = p.Mtime.Time()
	}
	return dbp.New(spl)
}

// BuildFile imports the bytes of r with the layout and parameters of p.
func BuildFile(dserv ipld.DAGService, r io.Reader, p ImportParams) (ipld.Node, error) {
	db, err := p.helper(dserv, r, true)
	if err != nil {
		return nil, err
	}
	switch p.Layout {
	case "balanced":
		return balanced.Layout(db)
	case "trickle":
		return trickle.Layout(db)
	}
	return nil, fmt.Errorf("unknown layout %q", p.Layout)
}

// AppendFile appends the bytes of r to base with trickle.Append (the way DagModifier
// does: same width, leaf type and CID builder; no file attributes). The returned root is
// NOT stored in dserv (trickle.Append leaves that to the caller); pass it on as a node.
func AppendFile(dserv ipld.DAGService, base ipld.Node, r io.Reader, p ImportParams) (ipld.Node, error) {
	db, err := p.helper(dserv, r, false)
	if err != nil {
		return nil, err
	}
	return trickle.Append(context.Background(), base, db)
}

// FileStat is what the DagReader reports besides the bytes.
type FileStat struct {
	Size    uint64
	Mode    os.FileMode
	ModTime time.Time
}

// ReadFile reads the whole file through uio.NewDagReader.
func ReadFile(getter ipld.NodeGetter, root ipld.Node) ([]byte, FileStat, error) {
	ctx, cancel := context.WithCancel(context.Background())
	defer cancel()
	r, err := uio.NewDagReader(ctx, root, getter)
	if err != nil {
		return nil, FileStat{}, err
	}
	defer r.Close()
	st := FileStat{Size: r.Size(), Mode: r.Mode(), ModTime: r.ModTime()}
	b, err := io.ReadAll(r)
	return b, st, err
}

// ---------------------------------------------------------------------------
// independent decode

// FileNode is one decoded node of a UnixFS file DAG.
type FileNode struct {
	Cid        cid.Cid
	Raw        bool     // raw block (no protobuf envelope)
	Type       string   // protobuf nodes: "Raw", "File", ... (upb.Data_DataType name)
	DataLen    int      // length of the inline data (raw block bytes or Data field)
	Filesize   uint64   // protobuf nodes: Filesize field (0 if absent)
	Blocksizes []uint64 // protobuf nodes: blocksizes field
	HasMode    bool     // protobuf nodes: mode field present
	HasMtime   bool     // protobuf nodes: mtime field present
	Children   []*FileNode
}

// FileTree is the fully decoded DAG below a root plus the bytes of its leaves in order.
type FileTree struct {
	Root    *FileNode
	Content []byte // concatenation of the inline data of all nodes in depth-first link order
	Nodes   int
}

// WalkFile decodes every node reachable from root (root itself is taken as given, it need
// not be stored in getter). Shared sub-DAGs are walked once per link.
func WalkFile(getter ipld.NodeGetter, root ipld.Node) (*FileTree, error) {
	t := &FileTree{}
	var buf bytes.Buffer
	var rec func(n ipld.Node, depth int) (*FileNode, error)
	rec = func(n ipld.Node, depth int) (*FileNode, error) {
		if depth > 64 {
			return nil, errors.New("walk: DAG deeper than 64 levels")
		}
		t.Nodes++
		fn := &FileNode{Cid: n.Cid()}
		switch nd := n.(type) {
		case *dag.RawNode:
			fn.Raw = true
			fn.DataLen = len(nd.RawData())
			buf.Write(nd.RawData())
			return fn, nil
		case *dag.ProtoNode:
			var msg upb.Data
			if err := proto.Unmarshal(nd.Data(), &msg); err != nil {
				return nil, fmt.Errorf("walk: node %s: UnixFS data does not decode: %w", n.Cid(), err)
			}
			fn.Type = msg.GetType().String()
			fn.DataLen = len(msg.GetData())
			fn.Filesize = msg.GetFilesize()
			fn.Blocksizes = append([]uint64(nil), msg.GetBlocksizes()...)
			fn.HasMode = msg.Mode != nil
			fn.HasMtime = msg.Mtime != nil
			buf.Write(msg.GetData())
			for i, l := range nd.Links() {
				c, err := getter.Get(context.Background(), l.Cid)
				if err != nil {
					return nil, fmt.Errorf("walk: node %s link %d (%s): %w", n.Cid(), i, l.Cid, err)
				}
				ch, err := rec(c, depth+1)
				if err != nil {
					return nil, err
				}
				fn.Children = append(fn.Children, ch)
			}
			return fn, nil
		}
		return nil, fmt.Errorf("walk: node %s has unexpected type %T", n.Cid(), n)
	}
	r, err := rec(root, 0)
	if err != nil {
		return nil, err
	}
	t.Root = r
	t.Content = buf.Bytes()
	return t, nil
}

// IsLeaf: the node has no links.
func (n *FileNode) IsLeaf() bool { return len(n.Children) == 0 }

// Height is the number of link levels below n (0 for a leaf).
func (n *FileNode) Height() int {
	h := 0
	for _, c := range n.Children {
		if x := c.Height() + 1; x > h {
			h = x
		}
	}
	return h
}

// Leaves counts the nodes without links below (and including) n.
func (n *FileNode) Leaves() int {
	if n.IsLeaf() {
		return 1
	}
	k := 0
	for _, c := range n.Children {
		k += c.Leaves()
	}
	return k
}

// contentLen recomputes the content length of the sub-DAG from the leaves only.
func (n *FileNode) contentLen() uint64 {
	s := uint64(n.DataLen)
	for _, c := range n.Children {
		s += c.contentLen()
	}
	return s
}

// CheckSizes checks the size bookkeeping of every node:
// a protobuf leaf records Filesize == len(Data) and has no blocksizes; an internal node has
// no inline data, one blocksize per link, blocksizes[i] == content length of child i
// (recomputed from the leaves) and Filesize == sum of blocksizes.
func (t *FileTree) CheckSizes() error {
	var rec func(n *FileNode, path string) error
	rec = func(n *FileNode, path string) error {
		if n.Raw {
			return nil
		}
		if n.IsLeaf() {
			if len(n.Blocksizes) != 0 {
				return fmt.Errorf("sizes: leaf %s has %d blocksizes", path, len(n.Blocksizes))
			}
			if n.Filesize != uint64(n.DataLen) {
				return fmt.Errorf("sizes: leaf %s records Filesize %d but carries %d bytes", path, n.Filesize, n.DataLen)
			}
			return nil
		}
		if n.DataLen != 0 {
			return fmt.Errorf("sizes: internal node %s carries %d bytes of inline data", path, n.DataLen)
		}
		if len(n.Blocksizes) != len(n.Children) {
			return fmt.Errorf("sizes: internal node %s has %d links but %d blocksizes", path, len(n.Children), len(n.Blocksizes))
		}
		var sum uint64
		for i, c := range n.Children {
			cl := c.contentLen()
			if n.Blocksizes[i] != cl {
				return fmt.Errorf("sizes: node %s records %d for child %d whose content is %d bytes", path, n.Blocksizes[i], i, cl)
			}
			sum += n.Blocksizes[i]
		}
		if n.Filesize != sum {
			return fmt.Errorf("sizes: node %s records Filesize %d, its blocksizes sum to %d", path, n.Filesize, sum)
		}
		for i, c := range n.Children {
			if err := rec(c, fmt.Sprintf("%s/%d", path, i)); err != nil {
				return err
			}
		}
		return nil
	}
	return rec(t.Root, "root")
}

// ShapeError is a violated shape rule. Kind is one of
// "too-deep", "leaf-expected", "branch-expected", "too-wide", "uneven".
type ShapeError struct {
	Kind string
	Path string
	Msg  string
}

func (e *ShapeError) Error() string { return "shape: " + e.Kind + " at " + e.Path + ": " + e.Msg }

// CheckBalancedShape: all leaves at the same distance from the root and no node with more
// than width links.
func (t *FileTree) CheckBalancedShape(width int) error {
	leafDepth := -1
	var rec func(n *FileNode, depth int, path string) error
	rec = func(n *FileNode, depth int, path string) error {
		if n.IsLeaf() {
			if leafDepth == -1 {
				leafDepth = depth
			} else if leafDepth != depth {
				return &ShapeError{"uneven", path, fmt.Sprintf("leaf at depth %d, earlier leaves at depth %d", depth, leafDepth)}
			}
			return nil
		}
		if len(n.Children) > width {
			return &ShapeError{"too-wide", path, fmt.Sprintf("%d links, width is %d", len(n.Children), width)}
		}
		for i, c := range n.Children {
			if err := rec(c, depth+1, fmt.Sprintf("%s/%d", path, i)); err != nil {
				return err
			}
		}
		return nil
	}
	return rec(t.Root, 0, "root")
}

// BalancedFull reports whether the balanced DAG is filled left to right: every internal node
// that is not on the right-most path has exactly width links. (Not demanded by C07; recorded
// as a statistic.)
func (t *FileTree) BalancedFull(width int) bool {
	var rec func(n *FileNode, rightmost bool) bool
	rec = func(n *FileNode, rightmost bool) bool {
		if n.IsLeaf() {
			return true
		}
		if !rightmost && len(n.Children) != width {
			return false
		}
		for i, c := range n.Children {
			if !rec(c, rightmost && i == len(n.Children)-1) {
				return false
			}
		}
		return true
	}
	return rec(t.Root, true)
}

// CheckTrickleShape is an independent implementation of the documented trickle rule
// (package doc of importer/trickle): a branch node holds first up to width direct leaves,
// then sub-trees in layers of TrickleRepeat; the j-th sub-tree (j counted from 0 after the
// direct leaves) has depth bound j/TrickleRepeat+1, where a tree of depth bound d may only
// hold sub-trees of depth bound < d (so depth bound 1 = leaves only). The root is unbounded.
func (t *FileTree) CheckTrickleShape(width int) error {
	var rec func(n *FileNode, bound int, path string) error
	rec = func(n *FileNode, bound int, path string) error {
		if n.Raw {
			return &ShapeError{"branch-expected", path, "raw block where a branch node is required"}
		}
		for i, c := range n.Children {
			p := fmt.Sprintf("%s/%d", path, i)
			if i < width {
				if !c.IsLeaf() {
					return &ShapeError{"leaf-expected", p, fmt.Sprintf("link %d < width %d must be a direct leaf, has %d links", i, width, len(c.Children))}
				}
				continue
			}
			d := (i-width)/TrickleRepeat + 1
			if bound > 0 && d >= bound {
				return &ShapeError{"too-deep", p, fmt.Sprintf("sub-tree #%d needs depth bound %d inside a tree of depth bound %d", i-width, d, bound)}
			}
			if c.Raw || c.DataLen != 0 {
				return &ShapeError{"branch-expected", p, "data node in a sub-tree position"}
			}
			if err := rec(c, d, p); err != nil {
				return err
			}
		}
		return nil
	}
	return rec(t.Root, -1, "root")
}

// CheckLeaves: every node that carries data is a link-less leaf; leaves are raw blocks iff
// rawLeaves, otherwise protobuf nodes of type pbType ("Raw" for trickle, "File" for
// balanced; "" = either); branch nodes are protobuf nodes of type "File".
// skipRoot exempts the root (a trickle root is a branch even without links).
func (t *FileTree) CheckLeaves(rawLeaves bool, pbType string, skipRoot bool) error {
	var rec func(n *FileNode, path string, root bool) error
	rec = func(n *FileNode, path string, root bool) error {
		if n.IsLeaf() && !(root && skipRoot) {
			if n.Raw != rawLeaves {
				return fmt.Errorf("leaves: %s raw=%v but RawLeaves=%v", path, n.Raw, rawLeaves)
			}
			if !n.Raw && n.Type != "File" && n.Type != "Raw" {
				return fmt.Errorf("leaves: %s has UnixFS type %s", path, n.Type)
			}
			if !n.Raw && pbType != "" && n.Type != pbType {
				return fmt.Errorf("leaves: %s has UnixFS type %s, want %s", path, n.Type, pbType)
			}
			return nil
		}
		if n.Raw || n.Type != "File" {
			return fmt.Errorf("leaves: branch node %s is not a UnixFS File node (raw=%v type=%s)", path, n.Raw, n.Type)
		}
		if n.DataLen != 0 {
			return fmt.Errorf("leaves: branch node %s carries data", path)
		}
		for i, c := range n.Children {
			if err := rec(c, fmt.Sprintf("%s/%d", path, i), false); err != nil {
				return err
			}
		}
		return nil
	}
	return rec(t.Root, "root", true)
}

// CheckPrefix: every node's CID has the version, hash function and digest length of p
// (raw blocks: codec raw and, as raw blocks cannot be CIDv0, version 1; protobuf nodes:
// codec dag-pb). p == nil means the library default: CIDv0 for protobuf nodes.
func (t *FileTree) CheckPrefix(p *PrefixSpec) error {
	want := cid.Prefix{Version: 0, Codec: cid.DagProtobuf, MhType: 0x12, MhLength: 32}
	if p != nil {
		want = p.Prefix()
		want.Codec = cid.DagProtobuf
	}
	var rec func(n *FileNode, path string) error
	rec = func(n *FileNode, path string) error {
		w := want
		if n.Raw {
			w.Codec = cid.Raw
			w.Version = 1
		}
		got := n.Cid.Prefix()
		if w.MhLength == -1 {
			w.MhLength = got.MhLength
		}
		if got != w {
			return fmt.Errorf("prefix: node %s has CID prefix %+v, want %+v", path, got, w)
		}
		for i, c := range n.Children {
			if err := rec(c, fmt.Sprintf("%s/%d", path, i)); err != nil {
				return err
			}
		}
		return nil
	}
	return rec(t.Root, "root")
}

// MetadataBelowRoot reports the path of a non-root node that carries mode or mtime ("" if none).
func (t *FileTree) MetadataBelowRoot() string {
	var rec func(n *FileNode, path string, root bool) string
	rec = func(n *FileNode, path string, root bool) string {
		if !root && (n.HasMode || n.HasMtime) {
			return path
		}
		for i, c := range n.Children {
			if p := rec(c, fmt.Sprintf("%s/%d", path, i), false); p != "" {
				return p
			}
		}
		return ""
	}
	return rec(t.Root, "root", true)
}

// LibVerifyTrickle runs the library's own trickle.VerifyTrickleDagStructure.
func LibVerifyTrickle(getter ipld.NodeGetter, root ipld.Node, p ImportParams) error {
	vp := trickle.VerifyParams{Getter: getter, Direct: p.Width, LayerRepeat: TrickleRepeat, RawLeaves: p.RawLeaves}
	if p.Prefix != nil {
		pf := p.Prefix.Prefix()
		pf.Codec = cid.DagProtobuf
		vp.Prefix = &pf
	}
	return trickle.VerifyTrickleDagStructure(root, vp)
}

// TrickleCapacity returns the number of leaves a trickle sub-tree of depth bound d holds
// when full: cap(1) = width, cap(d) = width + TrickleRepeat * sum_{i<d} cap(i).
func TrickleCapacity(width, d int) int {
	caps := make([]int, d+1)
	sum := 0
	for i := 1; i <= d; i++ {
		caps[i] = width + TrickleRepeat*sum
		sum += caps[i]
		if caps[i] > 1<<40 {
			return caps[i]
		}
	}
	return caps[d]
}
