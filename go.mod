module verif

go 1.25.7

require (
	github.com/anishathalye/porcupine v1.3.0
	github.com/ipfs/boxo v0.0.0
	pgregory.net/rapid v1.3.0
)

replace github.com/ipfs/boxo => /repo
