#!/usr/bin/env python3
"""Merges known_findings.d/*.json into the single committed known_findings.json (and empties the directory)."""
import json, glob, os
ROOT = os.path.dirname(os.path.dirname(os.path.abspath(__file__)))
fs = []
seen = set()
for p in [os.path.join(ROOT, 'known_findings.json')] + sorted(glob.glob(os.path.join(ROOT, 'known_findings.d', '*.json'))):
    for x in json.load(open(p))['findings']:
        k = (x['property'], x['key'])
        if k in seen:
            continue
        seen.add(k)
        fs.append(x)
fs.sort(key=lambda x: (x['property'], x['key']))
json.dump({"findings": fs}, open(os.path.join(ROOT, 'known_findings.json'), 'w'), indent=1)
for p in glob.glob(os.path.join(ROOT, 'known_findings.d', '*.json')):
    os.remove(p)
print(len(fs), 'findings merged')
