#!/bin/bash
# usage: tools/runall.sh [tier] [parallel] ; runs every claimed check, prints one line each
TIER=${1:-quick}; PAR=${2:-3}
cd /verif
ids=$(python3 -c "
import json;print(' '.join(c['property_id'] for c in json.load(open('MANIFEST.json'))['checks']))")
run() { s=$(date +%s); out=$(./check $1 --tier $TIER 2>&1); rc=$?; e=$(date +%s); echo "$1 rc=$rc $((e-s))s $(echo "$out" | grep -E 'VIOLATION|INCONCLUSIVE|OK property' | head -2 | tr '\n' ' ') known=$(echo "$out" | grep -c KNOWN-FINDING)"; }
export -f run; export TIER
echo $ids | tr ' ' '\n' | xargs -P $PAR -I{} bash -c 'run {}'
