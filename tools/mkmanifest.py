#!/usr/bin/env python3
"""Regenerates MANIFEST.json from props/*/check.json (claimed checks) and properties.jsonl."""
import json, os, sys
ROOT = os.path.dirname(os.path.dirname(os.path.abspath(__file__)))
props = [json.loads(l) for l in open(os.path.join(ROOT, "properties.jsonl"))]
hooks_commits = []
hp = os.path.join(ROOT, "tools", "hook_commits.txt")
if os.path.exists(hp):
    hooks_commits = [l.split()[0] for l in open(hp) if l.strip()]
na_reasons = {}
nap = os.path.join(ROOT, "tools", "not_applicable.json")
if os.path.exists(nap):
    na_reasons = json.load(open(nap))
checks, na = [], []
for p in props:
    pid = p["id"]
    cj = os.path.join(ROOT, "props", pid.lower(), "check.json")
    if not os.path.exists(cj) or not json.load(open(cj)).get("claimed", False):
        na.append({"property_id": pid, "reason": na_reasons.get(pid, "check not built yet in this session; not claimed")})
        continue
    c = json.load(open(cj))
    e = {
        "property_id": pid,
        "quick_cmd": "./check %s --tier quick" % pid,
        "thorough_cmd": "./check %s --tier thorough" % pid,
        "evidence_file": "/verif/evidence/%s.json" % pid,
        "replay_cmd_template": "./check %s --replay {path}" % pid,
        "engine": "rapid+driver",
        "level_claimed": {"category": c.get("level", "exploration"), "text": c["level_text"], "design_ref": "DESIGN.md section 6, " + pid},
        "level_note": c["level_note"],
        "technique": c["technique"],
    }
    checks.append(e)
m = {
    "version": 1,
    "setup_cmd": "cd /verif && GOFLAGS=-mod=mod GOPROXY=off go build -tags verif ./kit/ && GOFLAGS=-mod=mod GOPROXY=off go vet -tags verif ./kit/ >/dev/null 2>&1; true",
    "hooks": {
        "guard": "verif",
        "enable": "go test -tags verif (the driver ./check builds every property package with -tags verif; boxo is compiled from /repo through a replace directive)",
        "baseline_off_cmd": "cd /repo && GOFLAGS=-mod=mod go test -vet=off -count=1 -timeout 25m ./...",
        "source_commits": hooks_commits,
        "add_only": True,
    },
    "engines": [
        {"name": "rapid+driver", "path": "/verif/check", "serves_properties": [c["property_id"] for c in checks],
         "kind_free_text": "property-based testing with pgregory.net/rapid v1.3.0 (generated cases, model/round-trip/differential oracles, JSON replay), native go fuzzing in the thorough tier, synctest virtual clocks and enumerated crash points where stated"},
    ],
    "checks": checks,
    "not_applicable": na,
    "notes": "Every check: ./check <ID> --tier quick|thorough. VERIF_SEED selects the rapid seed (0/absent = fixed default). Known findings: /verif/known_findings.json.",
}
json.dump(m, open(os.path.join(ROOT, "MANIFEST.json"), "w"), indent=1)
print("claimed %d, not_applicable %d" % (len(checks), len(na)))
