#!/usr/bin/env python3
"""Writes seeded/RESULTS.md (what each seeded change needs, whether the check detects it) and FINDINGS.md (known findings table)."""
import json, glob, os, re
ROOT = os.path.dirname(os.path.dirname(os.path.abspath(__file__)))
rows = []
for d in sorted(glob.glob(os.path.join(ROOT, 'seeded', 'C*-*m*'))):
    try:
        m = json.load(open(os.path.join(d, 'meta.json')))
    except Exception:
        continue
    res = {}
    for tier in ('quick', 'thorough'):
        p = os.path.join(d, 'result', 'check-%s.txt' % tier)
        if os.path.exists(p):
            t = open(p).read()
            if 'VIOLATION' in t: res[tier] = 'detected'
            elif 'INCONCLUSIVE' in t: res[tier] = 'inconclusive'
            elif 'OK property' in t: res[tier] = 'missed'
    m['detected'] = res
    json.dump(m, open(os.path.join(d, 'meta.json'), 'w'), indent=1)
    rows.append((os.path.basename(d), m.get('property'), (m.get('summary') or '').replace('\n', ' ')[:160], (m.get('needs') or '').replace('\n', ' ')[:160], res.get('quick', '-'), res.get('thorough', '-'), (m.get('not_pursued') or m.get('detected_by_other_check') or '').replace('\n', ' ')))
with open(os.path.join(ROOT, 'seeded', 'RESULTS.md'), 'w') as f:
    f.write('# Seeded changes (written by independent sub-agents from the property text only) and what the checks report\n\n')
    f.write('Each directory holds patch.diff, the demonstration test, meta.json and result/ (driver output of `tools/seedtest.sh`).\n\n')
    f.write('| seed | property | change | needs | quick | thorough | note |\n|---|---|---|---|---|---|---|\n')
    for r in rows:
        f.write('| %s | %s | %s | %s | %s | %s | %s |\n' % tuple(str(x).replace('|', '/') for x in r))
    det = sum(1 for r in rows if r[4] == 'detected' or r[5] == 'detected')
    f.write('\n%d seeded changes, %d detected (quick or thorough).\n' % (len(rows), det))
fs = []
for p in [os.path.join(ROOT, 'known_findings.json')] + sorted(glob.glob(os.path.join(ROOT, 'known_findings.d', '*.json'))):
    try:
        fs += json.load(open(p))['findings']
    except Exception:
        pass
with open(os.path.join(ROOT, 'FINDINGS.md'), 'w') as f:
    f.write('# Genuine defects found in the pinned ipfs/boxo tree\n\nfixed = repaired by a `fix:` commit in /repo (the repro case is a plain regression case, no exclusion); open = recorded finding (narrow exclusion while open).\n\n')
    f.write('| property | key | status | commit | what fails |\n|---|---|---|---|---|\n')
    for x in sorted(fs, key=lambda x: (x['property'], x['key'])):
        f.write('| %s | %s | %s | %s | %s |\n' % (x['property'], x['key'], x['status'], x.get('commit', ''), ' '.join(x['what'].split()).replace('|', '/')))
    f.write('\n%d findings: %d fixed, %d open.\n' % (len(fs), sum(1 for x in fs if x['status'] == 'fixed'), sum(1 for x in fs if x['status'] == 'open')))
print(len(rows), 'seeds;', len(fs), 'findings')
