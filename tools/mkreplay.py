#!/usr/bin/env python3
"""Copies the shrunk failing cases that the checks produced on seeded (mutated) trees into replay/ as regression cases.
On the unchanged tree they must pass; `./check` runs them first in every tier."""
import json, glob, os, re, shutil
ROOT = os.path.dirname(os.path.dirname(os.path.abspath(__file__)))
os.makedirs(os.path.join(ROOT, 'replay'), exist_ok=True)
n = 0
for d in sorted(glob.glob(os.path.join(ROOT, 'seeded', 'C*-*m*'))):
    seed = os.path.basename(d)
    for f in glob.glob(os.path.join(d, 'result', 'C*-seed*.json')):
        try:
            doc = json.load(open(f))
        except Exception:
            continue
        if 'case' not in doc or 'property' not in doc:
            continue
        chk = doc.get('check') or 'main'
        if len(json.dumps(doc)) > 200000:
            continue
        doc['origin'] = 'shrunk failing case found on seeded change %s' % seed
        dst = os.path.join(ROOT, 'replay', '%s-%s-%s.json' % (doc['property'], chk, seed))
        json.dump(doc, open(dst, 'w'), indent=1)
        n += 1
print('replay cases:', n)
