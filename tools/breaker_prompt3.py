#!/usr/bin/env python3
"""Round-2 breaker prompt: as round 1 but tells the agent which changes already exist (summaries only)."""
import json, sys, glob, subprocess
pid = sys.argv[1]
base = subprocess.run(['python3', '/verif/tools/breaker_prompt.py', pid, '2'], capture_output=True, text=True).stdout
base = base.replace('/tmp/seed/%s-out' % pid.lower(), '/tmp/seed/%s-r3-out' % pid.lower()).replace('/tmp/seed/%s ' % pid.lower(), '/tmp/seed/%s-r3 ' % pid.lower()).replace('/tmp/seed/%s`' % pid.lower(), '/tmp/seed/%s-r3`' % pid.lower()).replace('/tmp/seed/%s)' % pid.lower(), '/tmp/seed/%s-r3)' % pid.lower()).replace('/tmp/seed/%s.' % pid.lower(), '/tmp/seed/%s-r3.' % pid.lower()).replace('/tmp/seed/%s ' % pid.lower(), '/tmp/seed/%s-r3 ' % pid.lower())
prev = []
for d in sorted(glob.glob('/verif/seeded/%s-*m*' % pid)):
    try:
        m = json.load(open(d + '/meta.json'))
        prev.append('- ' + ' '.join((m.get('summary') or '').split())[:400])
    except Exception:
        pass
extra = "\n\nIMPORTANT — earlier testers already produced the following changes for this property; yours must be DIFFERENT in root cause, in the code site and in what they need to manifest (aim at other clauses of the property statement, other entry points, other configurations, fault/crash/interleaving conditions not used below):\n" + "\n".join(prev) + "\n\nAlso: the repository HEAD already contains some recent 'fix:' commits (see `git log --oneline | head -60`); do not simply revert one of those commits.\n"
print(base + extra)
