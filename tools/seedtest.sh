#!/bin/bash
# usage: tools/seedtest.sh <seed-dir with patch.diff, meta.json, zz_seed_demo_test.go> [tier] [--skip-demo]
# Confirms a seeded change in a scratch worktree of /repo's HEAD (never in /repo) and runs the check against it.
set -u
D=$(realpath "$1"); TIER=${2:-quick}; SKIP=${3:-}
export GOFLAGS=-mod=mod GOPROXY=off
PID=$(python3 -c "import json;print(json.load(open('$D/meta.json'))['property'])")
PKG=$(python3 -c "import json;print(json.load(open('$D/meta.json')).get('demo_pkg',''))")
RUN=$(python3 -c "import json;print(json.load(open('$D/meta.json')).get('demo_run',''))")
WT=/tmp/seedwt/$(basename $(dirname $D))-$(basename $D)-$$
mkdir -p /tmp/seedwt
git -C /repo worktree add -q --detach $WT HEAD || exit 3
# untracked hook files that live in /repo (not yet committed) are copied too
(cd /repo && git ls-files --others --exclude-standard | grep -E 'verif' | while read f; do mkdir -p $WT/$(dirname $f); cp $f $WT/$f; done)
res=""
if [ "$SKIP" != "--skip-demo" ] && [ -n "$PKG" ]; then
  DEMO=$(ls $D/*_test.go 2>/dev/null | head -1)
  if [ -n "$DEMO" ]; then
    cp $DEMO $WT/$PKG/
    (cd $WT && timeout 900 $RUN >/tmp/seedwt/demo-clean.$$ 2>&1); c1=$?
    (cd $WT && git apply $D/patch.diff) || { echo "PATCH DOES NOT APPLY"; git -C /repo worktree remove --force $WT; exit 3; }
    (cd $WT && timeout 900 $RUN >/tmp/seedwt/demo-mut.$$ 2>&1); c2=$?
    res="demo_clean_rc=$c1 demo_mutant_rc=$c2"
    rm -f $WT/$PKG/$(basename $DEMO)
  fi
else
  (cd $WT && git apply $D/patch.diff) || { echo "PATCH DOES NOT APPLY"; git -C /repo worktree remove --force $WT; exit 3; }
fi
(cd $WT && go build ./... >/tmp/seedwt/build.$$ 2>&1); b=$?
cd /verif && VERIF_REPO=$WT ./check $PID --tier $TIER > /tmp/seedwt/check.$$ 2>&1; rc=$?
echo "SEED $(basename $(dirname $D))/$(basename $D) property=$PID $res build_rc=$b check_rc=$rc $(grep -m1 -E 'VIOLATION|INCONCLUSIVE|OK property' /tmp/seedwt/check.$$)"
H=$(python3 -c "import hashlib,os;print(hashlib.sha1(os.path.realpath('$WT').encode()).hexdigest()[:10])")
mkdir -p $D/result; cp /tmp/seedwt/check.$$ $D/result/check-$TIER.txt 2>/dev/null
ls /verif/out/alt-$H/*.json >/dev/null 2>&1 && cp /verif/out/alt-$H/${PID}-*.json $D/result/ 2>/dev/null
rm -rf /verif/out/alt-$H /verif/out/bin/*-$H.test /tmp/seedwt/*.$$
git -C /repo worktree remove --force $WT
exit $rc
