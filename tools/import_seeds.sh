#!/bin/bash
# copies finished breaker outputs /tmp/seed/cNN-out/m* to /verif/seeded/CNN-m*/ (once)
for d in /tmp/seed/c*-out/m*; do
  [ -f $d/patch.diff ] && [ -f $d/meta.json ] || continue
  base=$(basename $(dirname $d)); k=$(basename $d)
  case $base in
    *-r2-out) pid=$(echo $base | sed 's/-r2-out//' | tr a-z A-Z); k=r2$k;;
    *-r3-out) pid=$(echo $base | sed "s/-r3-out//" | tr a-z A-Z); k=r3$k;;
    *) pid=$(echo $base | sed 's/-out//' | tr a-z A-Z);;
  esac
  dst=/verif/seeded/$pid-$k
  [ -d $dst ] && continue
  mkdir -p $dst; cp $d/patch.diff $d/meta.json $dst/; cp $d/*_test.go $dst/ 2>/dev/null
  # normalise demo_pkg
  python3 - "$dst" "$d" <<'PY'
import json,sys,os,glob
dst,src=sys.argv[1],sys.argv[2]
m=json.load(open(dst+'/meta.json'))
if not m.get('demo_pkg'):
    for f in ('demo_pkg.txt','PKG'):
        if os.path.exists(src+'/'+f): m['demo_pkg']=open(src+'/'+f).read().strip()
if not m.get('demo_run') and m.get('demo_pkg'):
    m['demo_run']='go test -count=1 -run TestSeedDemo '+m['demo_pkg']
json.dump(m,open(dst+'/meta.json','w'),indent=1)
PY
  echo imported $dst
done
