#!/usr/bin/env python3
"""Prints the prompt for a 'breaker' sub-agent for one property (property text only, nothing from /verif)."""
import json, sys
pid = sys.argv[1]
n = sys.argv[2] if len(sys.argv) > 2 else "2"
for l in open('/verif/properties.jsonl'):
    p = json.loads(l)
    if p['id'] == pid:
        break
wt = "/tmp/seed/%s" % pid.lower()
outd = "/tmp/seed/%s-out" % pid.lower()
print(f"""You are testing how good a (hidden) verification suite for the Go library ipfs/boxo is. Your task: produce {n} different, realistic, subtle code changes ("seeded defects") to ipfs/boxo that each BREAK the semantic property below while the code still compiles and the library's existing test suite still passes.

You have your own scratch git worktree of the repository at {wt} (create it first with: `git -C /repo worktree add --detach {wt} HEAD`). Work ONLY inside {wt} and {outd}. Do NOT read, list or use anything under /verif (it is off limits: your work must be independent of it), do not modify /repo itself, and do not run any git command that changes /repo's own working tree or branches.

Environment: no network. Use exactly `export GOFLAGS=-mod=mod GOPROXY=off` (do NOT set GOTOOLCHAIN or GOSUMDB). Go picks the go1.25.7 toolchain from the module cache automatically. Only modules already in the module cache are available.

THE PROPERTY ({pid}: {p['title']})
Statement: {p['statement']}
Quantified over: {p['quantifier']['text']}
Code it is anchored in: {', '.join(p['anchors']['files'])}
Mechanisms that make it hold: {json.dumps(p['anchors'].get('mechanism', []))}

Requirements for each change:
1. It is a small semantic change to non-test source files of ipfs/boxo (a plausible bug a developer could introduce: an off-by-one, a dropped check, a wrong comparison, a missing lock/update/invalidating step, a reordered pair of operations, two cooperating sites that each look fine alone). Not a compile error, not a panic on every call, not something ordinary use would expose at once.
2. It must need something SPECIFIC to manifest: a particular interleaving, a crash/fault at a particular point, a multi-step sequence of operations, an unusual input or configuration, a boundary value.
3. It breaks the property as stated above (observable through the public API / observable effects), not some other behaviour.
4. The existing tests of the affected packages must still pass with the change: run `go build ./... ` and `go test -count=1 ./<affected package>/...` (and packages that directly depend on it if cheap) in {wt} and confirm. If an existing test fails, pick a different change.
5. Provide a demonstration: a Go test file (placed in the affected package directory of the worktree as `zz_seed_demo_test.go`, or a small program) that FAILS with the change and PASSES without it. Verify both directions yourself (use `git diff > OUT/patch.diff; git apply -R OUT/patch.diff; run; git apply OUT/patch.diff; run` with OUT your own output directory. NEVER use `git stash`: the stash is shared by all worktrees of /repo and other agents work concurrently. Use only file names inside your own directories, never shared names under /tmp. The machine is heavily loaded: timing-sensitive existing tests may flake; re-run those with -p 1 before concluding anything).
The {n} changes should differ in root cause and in what they need to manifest (do not produce variations of the same edit).

Deliver, for change k = 1..{n}, a directory {outd}/m<k>/ containing:
 - patch.diff : `git diff` of ONLY the source change (not the demo test), applicable with `git apply` at the repository root;
 - the demonstration test file (zz_seed_demo_test.go) and the package path it belongs in;
 - meta.json : {{"property": "{pid}", "summary": "...what was changed...", "needs": "...what is needed for it to manifest...", "demo_pkg": "./path/to/pkg", "demo_run": "go test -run TestSeedDemo ./path/to/pkg", "existing_tests_run": "...commands you ran and that passed with the change..."}}.
When finished, reset the worktree to clean (`git -C {wt} checkout -- . && git -C {wt} clean -fdq`) but do NOT remove it. Final report: for each change, 3–5 lines: what, why it breaks the property, what it needs, what you verified.""")
