#!/usr/bin/env python3
# usage: markfixed.py <file> <key> <commit>
import json,sys
p,key,commit=sys.argv[1:4]
d=json.load(open(p))
n=0
for f in d['findings']:
    if f['key']==key:
        f['status']='fixed'; f['commit']=commit; n+=1
json.dump(d,open(p,'w'),indent=1)
print('marked',n)
